//! Control-plane and resource oracles: liveness, panics, C04 (pool bound, capacity).

use super::*;

/// Bounded liveness: once faults stopped, everybody finished; no step waited beyond its
/// patience; the run reached its end before the virtual deadline.
pub fn liveness(cx: &mut Ctx) {
    let prop = {
        let p = cx.param_str("liveness_property");
        if p.is_empty() { cx.spec.property.clone() } else { p }
    };
    let h = cx.h;
    for c in h.clients.values() {
        if c.role == "attacker" || c.role == "holder" {
            continue;
        }
        for s in &c.steps {
            if s.outcome == StepOutcome::Timeout {
                cx.v(&prop, "step_timeout", &format!("{}/liveness/step_timeout/role={}", prop, c.role), s.done_seq, format!("client {} ({}) step {} ({}) got no complete reply within its patience ({} virtual ms)", c.id, c.role, s.idx, s.op, (s.done_us - s.start_us) / 1000));
            }
        }
        if !c.finished {
            cx.v(&prop, "client_stuck", &format!("{}/liveness/client_stuck/role={}", prop, c.role), 0, format!("client {} ({}) never finished its program (auth: {}, steps done: {})", c.id, c.role, c.auth_result, c.steps.len()));
        }
    }
    if !cx.completed {
        cx.v(&prop, "run_incomplete", &format!("{}/liveness/run_incomplete", prop), 0, "the run hit its virtual deadline before all clients finished".into());
    }
}

/// No panic anywhere in the pooler (a panic in a client task kills only that task, but it is
/// still a defect worth a line; properties decide whether it is a violation for them).
pub fn no_panic(cx: &mut Ctx) {
    let prop = cx.spec.property.clone();
    let panics = cx.h.panics.clone();
    for p in panics {
        let loc = p.split(" at ").nth(1).unwrap_or("").split(':').take(2).collect::<Vec<_>>().join(":");
        let loc = if loc.is_empty() { p.chars().take(60).collect::<String>() } else { loc };
        cx.v(&prop, "panic", &format!("{}/panic/{}", prop, loc.replace("/repo/", "")), 0, p.clone());
    }
}

/// C04 — never more than pool_size authenticated server sessions per (server, user, database),
/// measured at PgCat's end of the wire.
pub fn c04_bound(cx: &mut Ctx) {
    let h = cx.h;
    for (seq, host, user, db, count) in &h.authed_samples {
        // which pool does this (host, user) belong to?
        let hs = match cx.spec.hosts.iter().find(|x| &x.addr == host) {
            Some(x) => x,
            None => continue,
        };
        if hs.role == "mirror" {
            continue;
        }
        let size = match cx.pool_param(&hs.pool, user, "size").and_then(|v| v.as_u64()) {
            Some(s) => s as usize,
            None => continue, // auth_query user etc.
        };
        let _ = db;
        if *count > size {
            cx.v("C04", "pool_size_exceeded", "C04/pool_size_exceeded", *seq, format!("{} live authenticated sessions of user {} on {} (pool_size {})", count, user, host, size));
        }
        if *count == size {
            cx.probe("c04_pool_full");
        }
    }
    // a client that was refused a connection stays usable
    for c in h.clients.values() {
        if !is_data_client(c) {
            continue;
        }
        for (i, s) in c.steps.iter().enumerate() {
            if let Some(msg) = pooler_error(&s.msgs) {
                if msg.contains("could not get connection from the pool") {
                    cx.probe("c04_checkout_refused");
                    if !matches!(s.outcome, StepOutcome::Ready(b'I')) {
                        cx.v("C04", "refused_client_dropped", "C04/refused_client_dropped", s.done_seq, format!("client {} step {} was refused a connection and then lost its session ({:?})", c.id, i, s.outcome));
                    }
                }
            }
        }
    }
    // somebody actually waited
    for c in h.clients.values() {
        for s in &c.steps {
            if step_ok(s) && s.done_us.saturating_sub(s.sent_us) > 20_000 && s.op == "send" {
                cx.probe("c04_step_waited_20ms");
            }
        }
    }
}

/// C04 — after quiescence the whole capacity is available and nothing is marked in use:
/// the probe clients (role "probe") must all have been served, and the admin console rows read
/// by the final admin client show no active server.
pub fn c04_capacity(cx: &mut Ctx) {
    let h = cx.h;
    for c in h.clients.values() {
        if c.role != "probe" {
            continue;
        }
        if c.auth_result != "ok" {
            cx.v("C04", "probe_not_admitted", "C04/capacity/probe_not_admitted", 0, format!("capacity probe client {} could not log in: {}", c.id, c.auth_result));
            continue;
        }
        for s in &c.steps {
            if s.op != "send" {
                continue;
            }
            if let Some(m) = pooler_error(&s.msgs) {
                cx.v("C04", "capacity_lost", "C04/capacity/probe_refused", s.done_seq, format!("after quiescence, capacity probe client {} step {} was refused: {}", c.id, s.idx, m));
            } else if !step_ok(s) {
                cx.v("C04", "capacity_lost", "C04/capacity/probe_failed", s.done_seq, format!("after quiescence, capacity probe client {} step {} ended {:?}", c.id, s.idx, s.outcome));
            } else {
                cx.probe("c04_probe_served");
            }
        }
    }
    // admin console
    for c in h.clients.values() {
        if c.role != "admin" {
            continue;
        }
        for s in &c.steps {
            let sql = String::from_utf8_lossy(&s.sent).to_string();
            if !cx.spec.clients.iter().any(|cs| cs.id == c.id && cs.phase == "final") {
                continue;
            }
            if sql.contains("SHOW SERVERS") {
                for row in rows_of(&s.msgs) {
                    // columns: server_id, database_name, user, address_id, application_name, state, ...
                    if row.len() > 5 && row[5] == "active" {
                        cx.v("C04", "server_left_active", "C04/capacity/server_left_active", s.done_seq, format!("SHOW SERVERS after quiescence lists {} as active", row[3]));
                    }
                    cx.probe("c04_show_servers_rows");
                }
            }
            if sql.contains("SHOW POOLS") {
                let hdr = header_of(&s.msgs);
                for row in rows_of(&s.msgs) {
                    let get = |name: &str| hdr.iter().position(|h| h == name).and_then(|i| row.get(i)).cloned().unwrap_or_default();
                    if get("sv_active") != "0" && !get("sv_active").is_empty() {
                        cx.v("C04", "server_left_active", "C04/capacity/pool_sv_active", s.done_seq, format!("SHOW POOLS after quiescence: pool {} user {} sv_active={}", get("database"), get("user"), get("sv_active")));
                    }
                }
            }
        }
    }
}

pub fn rows_of(msgs: &[Msg]) -> Vec<Vec<String>> {
    msgs.iter()
        .filter(|m| m.ty == b'D')
        .map(|m| proto::data_row_cols(&m.body).into_iter().map(|c| String::from_utf8_lossy(&c.unwrap_or_default()).to_string()).collect())
        .collect()
}

pub fn header_of(msgs: &[Msg]) -> Vec<String> {
    for m in msgs {
        if m.ty == b'T' {
            let mut r = proto::Reader::new(&m.body);
            let n = r.i16().unwrap_or(0);
            let mut out = Vec::new();
            for _ in 0..n {
                out.push(r.cstr().unwrap_or_default());
                let _ = r.bytes(18);
            }
            return out;
        }
    }
    Vec::new()
}
