//! Control-plane and resource oracles: liveness, panics, C04 (pool bound, capacity).

use super::*;

/// Bounded liveness: once faults stopped, everybody finished; no step waited beyond its
/// patience; the run reached its end before the virtual deadline.
pub fn liveness(cx: &mut Ctx) {
    let prop = {
        let p = cx.param_str("liveness_property");
        if p.is_empty() { cx.spec.property.clone() } else { p }
    };
    let h = cx.h;
    for c in h.clients.values() {
        if c.role == "attacker" || c.role == "holder" {
            continue;
        }
        for s in &c.steps {
            if s.outcome == StepOutcome::Timeout {
                cx.v(&prop, "step_timeout", &format!("{}/liveness/step_timeout/role={}", prop, c.role), s.done_seq, format!("client {} ({}) step {} ({}) got no complete reply within its patience ({} virtual ms)", c.id, c.role, s.idx, s.op, (s.done_us - s.start_us) / 1000));
            }
        }
        if !c.finished {
            cx.v(&prop, "client_stuck", &format!("{}/liveness/client_stuck/role={}", prop, c.role), 0, format!("client {} ({}) never finished its program (auth: {}, steps done: {})", c.id, c.role, c.auth_result, c.steps.len()));
        }
    }
    if !cx.completed {
        cx.v(&prop, "run_incomplete", &format!("{}/liveness/run_incomplete", prop), 0, "the run hit its virtual deadline before all clients finished".into());
    }
}

/// No panic anywhere in the pooler (a panic in a client task kills only that task, but it is
/// still a defect worth a line; properties decide whether it is a violation for them).
pub fn no_panic(cx: &mut Ctx) {
    let prop = cx.spec.property.clone();
    let panics = cx.h.panics.clone();
    for p in panics {
        let loc = p.split(" at ").nth(1).unwrap_or("").split(':').take(2).collect::<Vec<_>>().join(":");
        let loc = if loc.is_empty() { p.chars().take(60).collect::<String>() } else { loc };
        cx.v(&prop, "panic", &format!("{}/panic/{}", prop, loc.replace("/repo/", "")), 0, p.clone());
    }
}

/// C04 — never more than pool_size authenticated server sessions per (server, user, database),
/// measured at PgCat's end of the wire.
pub fn c04_bound(cx: &mut Ctx) {
    let h = cx.h;
    for (seq, host, user, db, count) in &h.authed_samples {
        // which pool does this (host, user) belong to?
        let hs = match cx.spec.hosts.iter().find(|x| &x.addr == host) {
            Some(x) => x,
            None => continue,
        };
        if hs.role == "mirror" {
            continue;
        }
        let size = match cx.pool_param(&hs.pool, user, "size").and_then(|v| v.as_u64()) {
            Some(s) => s as usize,
            None => continue, // auth_query user etc.
        };
        let _ = db;
        if *count > size {
            cx.v("C04", "pool_size_exceeded", "C04/pool_size_exceeded", *seq, format!("{} live authenticated sessions of user {} on {} (pool_size {})", count, user, host, size));
        }
        if *count == size {
            cx.probe("c04_pool_full");
        }
    }
    // a client that was refused a connection stays usable
    for c in h.clients.values() {
        if !is_data_client(c) {
            continue;
        }
        for (i, s) in c.steps.iter().enumerate() {
            if let Some(msg) = pooler_error(&s.msgs) {
                if msg.contains("could not get connection from the pool") {
                    cx.probe("c04_checkout_refused");
                    // (a pipelined step holds several requests: the refusal and a later failure of
                    // another request of the same step cannot be told apart, so only single requests are judged)
                    let (sent_msgs, _) = proto::split_all(&s.sent);
                    let single = sent_msgs.iter().filter(|m| m.ty == b'Q' || m.ty == b'S').count() == 1;
                    if single && !matches!(s.outcome, StepOutcome::Ready(b'I')) {
                        cx.v("C04", "refused_client_dropped", "C04/refused_client_dropped", s.done_seq, format!("client {} step {} was refused a connection and then lost its session ({:?})", c.id, i, s.outcome));
                    }
                }
            }
        }
    }
    // a refusal is legitimate only if the capacity really was in use while the client waited
    refused_while_free(cx);
    // somebody actually waited
    for c in h.clients.values() {
        for s in &c.steps {
            if step_ok(s) && s.done_us.saturating_sub(s.sent_us) > 20_000 && s.op == "send" {
                cx.probe("c04_step_waited_20ms");
            }
        }
    }
}

/// C04 — after quiescence the whole capacity is available and nothing is marked in use:
/// the probe clients (role "probe") must all have been served, and the admin console rows read
/// by the final admin client show no active server.
pub fn c04_capacity(cx: &mut Ctx) {
    let h = cx.h;
    for c in h.clients.values() {
        if c.role != "probe" {
            continue;
        }
        if c.auth_result != "ok" {
            cx.v("C04", "probe_not_admitted", "C04/capacity/probe_not_admitted", 0, format!("capacity probe client {} could not log in: {}", c.id, c.auth_result));
            continue;
        }
        for s in &c.steps {
            if s.op != "send" {
                continue;
            }
            if let Some(m) = pooler_error(&s.msgs) {
                cx.v("C04", "capacity_lost", "C04/capacity/probe_refused", s.done_seq, format!("after quiescence, capacity probe client {} step {} was refused: {}", c.id, s.idx, m));
            } else if !step_ok(s) {
                cx.v("C04", "capacity_lost", "C04/capacity/probe_failed", s.done_seq, format!("after quiescence, capacity probe client {} step {} ended {:?}", c.id, s.idx, s.outcome));
            } else {
                cx.probe("c04_probe_served");
            }
        }
    }
    // admin console
    for c in h.clients.values() {
        if c.role != "admin" {
            continue;
        }
        for s in &c.steps {
            let sql = String::from_utf8_lossy(&s.sent).to_string();
            if !cx.spec.clients.iter().any(|cs| cs.id == c.id && cs.phase == "final") {
                continue;
            }
            if sql.contains("SHOW SERVERS") {
                for row in rows_of(&s.msgs) {
                    // columns: server_id, database_name, user, address_id, application_name, state, ...
                    if row.len() > 5 && row[5] == "active" {
                        cx.v("C04", "server_left_active", "C04/capacity/server_left_active", s.done_seq, format!("SHOW SERVERS after quiescence lists {} as active", row[3]));
                    }
                    cx.probe("c04_show_servers_rows");
                }
            }
            if sql.contains("SHOW POOLS") {
                let hdr = header_of(&s.msgs);
                for row in rows_of(&s.msgs) {
                    let get = |name: &str| hdr.iter().position(|h| h == name).and_then(|i| row.get(i)).cloned().unwrap_or_default();
                    if get("sv_active") != "0" && !get("sv_active").is_empty() {
                        cx.v("C04", "server_left_active", "C04/capacity/pool_sv_active", s.done_seq, format!("SHOW POOLS after quiescence: pool {} user {} sv_active={}", get("database"), get("user"), get("sv_active")));
                    }
                }
            }
        }
    }
}

pub fn rows_of(msgs: &[Msg]) -> Vec<Vec<String>> {
    msgs.iter()
        .filter(|m| m.ty == b'D')
        .map(|m| proto::data_row_cols(&m.body).into_iter().map(|c| String::from_utf8_lossy(&c.unwrap_or_default()).to_string()).collect())
        .collect()
}

pub fn header_of(msgs: &[Msg]) -> Vec<String> {
    for m in msgs {
        if m.ty == b'T' {
            let mut r = proto::Reader::new(&m.body);
            let n = r.i16().unwrap_or(0);
            let mut out = Vec::new();
            for _ in 0..n {
                out.push(r.cstr().unwrap_or_default());
                let _ = r.bytes(18);
            }
            return out;
        }
    }
    Vec::new()
}

fn config_u64(spec: &Spec, key: &str, default: u64) -> u64 {
    for l in spec.config_toml.lines() {
        if let Some(v) = l.strip_prefix(&format!("{} = ", key)) {
            if let Ok(n) = v.trim().parse::<u64>() {
                return n;
            }
        }
    }
    default
}

/// "Clients beyond capacity wait and are served as connections are released (or get a pool error
/// after the connect timeout)". A client that got the pool error must have found every candidate
/// server's pool fully checked out for (almost) a whole connect_timeout. Holds are measured from
/// the clients' side (send of a transaction's first message to receipt of its last reply), which
/// over-approximates PgCat's own holds, so the oracle cannot blame PgCat wrongly.
fn refused_while_free(cx: &mut Ctx) {
    let h = cx.h;
    let connect_timeout_us = config_u64(cx.spec, "connect_timeout", 5000) * 1000;
    // hold intervals per host
    let mut holds: BTreeMap<String, Vec<(u64, u64)>> = BTreeMap::new();
    for c in h.clients.values() {
        // everybody who can hold a server counts: workers, probes, warm-up clients, holders, attackers
        if c.role == "admin" || c.database == "pgcat" {
            continue;
        }
        let session = cx.pool_mode(&c.database, &c.user) == "session";
        // Walk the program: a hold opens with the first tagged request and stays open, through
        // think times, until a request ends with the server idle (transaction mode) or the client is
        // gone (session mode, a transaction left open, a cut connection).
        let client_end = c.steps.last().map(|s| s.done_us).unwrap_or(0).saturating_add(50_000);
        let mut cur: Option<(u64, std::collections::BTreeSet<String>)> = None;
        for s in &c.steps {
            let mine: Vec<&Tag> = s.tags.iter().filter(|t| t.c == c.id).collect();
            if mine.is_empty() {
                continue;
            }
            let e = cur.get_or_insert((s.start_us, Default::default()));
            for t in mine {
                if let Some(v) = cx.ix.exec_by_tag.get(t) {
                    for si in v {
                        e.1.insert(h.backend_conns[h.stmts[*si].conn].host.clone());
                    }
                }
                if let Some(v) = cx.ix.units_by_tag.get(t) {
                    for (ci, _) in v {
                        e.1.insert(h.backend_conns[*ci].host.clone());
                    }
                }
            }
            if !session && matches!(s.outcome, StepOutcome::Ready(b'I')) {
                if let Some((a, hosts)) = cur.take() {
                    for host in hosts {
                        holds.entry(host).or_default().push((a, s.done_us));
                    }
                }
            }
        }
        if cur.is_some() {
            // The client went away (or stopped) with a request outstanding: the pooler keeps the
            // server until it has dealt with the reply, which on a slow link can take long. The
            // connection is provably not available to anybody else before the next statement of
            // another client starts on it, or it is closed.
            let (a, hosts) = cur.take().unwrap();
            let mut end = client_end;
            for (ci, bc) in h.backend_conns.iter().enumerate() {
                if !bc.units.iter().any(|u| u.tags.iter().any(|t| t.c == c.id)) {
                    continue;
                }
                let my_last = h.stmts.iter().filter(|e| e.conn == ci && e.rec.tags.iter().any(|t| t.c == c.id)).map(|e| e.start_us).max().unwrap_or(0);
                let next_other = h.stmts.iter().filter(|e| e.conn == ci && e.start_us > my_last && !e.rec.tags.is_empty() && e.rec.tags.iter().all(|t| t.c != c.id)).map(|e| e.start_us).min();
                let free_at = next_other.or(bc.closed_us).unwrap_or(u64::MAX / 4);
                end = end.max(free_at);
            }
            for host in hosts {
                holds.entry(host).or_default().push((a, end));
            }
        }
    }
    for c in h.clients.values() {
        if !is_data_client(c) {
            continue;
        }
        for s in &c.steps {
            let msg = match pooler_error(&s.msgs) {
                Some(m) if m.contains("could not get connection from the pool") && m.contains("AllServersDown") => m,
                _ => continue,
            };
            let _ = msg;
            if cx.param_bool("server_faults") {
                continue; // dead servers are a legitimate reason too; judged by C07
            }
            let (w0, w1) = (s.sent_us, s.done_us);
            let pool_hosts: Vec<&crate::spec::HostSpec> = cx.spec.hosts.iter().filter(|x| x.pool == c.database && x.role != "mirror").collect();
            let size = cx.pool_param(&c.database, &c.user, "size").and_then(|v| v.as_u64()).unwrap_or(1) as usize;
            for hs in pool_hosts {
                let mut iv = holds.get(&hs.addr).cloned().unwrap_or_default();
                // a connection that is still being established occupies a slot of the pool as
                // well (on a slow network the handshake alone can outlast connect_timeout)
                let settle = (300 + 8 * (cx.spec.net.latency_ms.1 + cx.spec.net.jitter_ms)) * 1000;
                for bc in h.backend_conns.iter().filter(|b| b.host == hs.addr && b.kind == "session") {
                    let end = bc.authed_us.map(|a| a + settle).or(bc.closed_us).unwrap_or(u64::MAX / 4);
                    iv.push((bc.opened_us, end));
                }
                // sweep: longest stretch inside [w0,w1] with >= size concurrent holds (gaps < 50 ms tolerated)
                let mut pts: Vec<u64> = vec![w0, w1];
                for (a, b) in &iv {
                    if *a > w0 && *a < w1 {
                        pts.push(*a);
                    }
                    if *b > w0 && *b < w1 {
                        pts.push(*b);
                    }
                }
                pts.sort();
                pts.dedup();
                let mut best = 0u64;
                let mut cur = 0u64;
                let mut gap = 0u64;
                for w in pts.windows(2) {
                    let mid = (w[0] + w[1]) / 2;
                    let n = iv.iter().filter(|(a, b)| *a <= mid && mid <= *b).count();
                    let len = w[1] - w[0];
                    if n >= size {
                        cur += len + gap;
                        gap = 0;
                        best = best.max(cur);
                    } else {
                        gap += len;
                        if gap >= 50_000 {
                            cur = 0;
                            gap = 0;
                        }
                    }
                }
                cx.probe("c04_refusal_judged");
                if best + 100_000 < connect_timeout_us.min(w1 - w0) {
                    cx.v("C04", "refused_while_capacity_free", "C04/refused_while_capacity_free", s.done_seq, format!("client {} step {} was refused a connection after waiting {} ms, but server {} (pool_size {}) was fully checked out for at most {} ms of that time (connect_timeout {} ms)", c.id, s.idx, (w1 - w0) / 1000, hs.addr, size, best / 1000, connect_timeout_us / 1000));
                }
            }
        }
    }
}

/// C16 — while a pool is paused no new client transaction is started on its servers; after
/// RESUME every held client proceeds (the latter is the liveness oracle).
pub fn c16_pause(cx: &mut Ctx) {
    let h = cx.h;
    // pause intervals from the admin's own records: (scope, ack seq of PAUSE, send seq of RESUME)
    let mut intervals: Vec<(String, u64, u64, u64)> = Vec::new();
    for a in h.clients.values().filter(|c| c.role == "admin") {
        let mut open: Option<(String, u64)> = None;
        for s in &a.steps {
            if s.op != "send" {
                continue;
            }
            let sql = proto::split_all(&s.sent).0.first().and_then(|m| proto::Reader::new(&m.body).cstr()).unwrap_or_default();
            let up = sql.trim().to_ascii_uppercase();
            if up.starts_with("PAUSE") {
                if server_error(&s.msgs).is_some() || pooler_error(&s.msgs).is_some() || !step_ok(s) {
                    continue;
                }
                open = Some((sql.trim()[5..].trim().to_string(), s.done_seq));
            } else if up.starts_with("RESUME") {
                if let Some((scope, ack)) = open.take() {
                    intervals.push((scope, ack, s.start_seq, s.done_seq));
                }
            }
        }
        if let Some((scope, ack)) = open {
            intervals.push((scope, ack, u64::MAX, u64::MAX));
        }
    }
    for (scope, ack, resume_sent, resume_acked) in &intervals {
        let in_scope = |db: &str, user: &str| -> bool {
            if scope.is_empty() {
                return true;
            }
            let parts: Vec<&str> = scope.split(',').map(|x| x.trim()).collect();
            parts.len() == 2 && parts[0] == db && parts[1] == user
        };
        for c in h.clients.values() {
            if !is_data_client(c) || !in_scope(&c.database, &c.user) {
                continue;
            }
            let session = cx.pool_mode(&c.database, &c.user) == "session";
            let mut holding = false; // does the client hold a server when this step starts?
            // tags of a batch whose first messages went out without waiting for a reply (the
            // pooler only buffers them): the step that sends its Sync is the one that starts it
            let mut buffered_tags: Vec<Tag> = Vec::new();
            for s in &c.steps {
                if s.op != "send" && s.op != "copyin" {
                    continue;
                }
                if s.op == "send" && s.outcome == StepOutcome::Done && !s.tags.is_empty() && !holding {
                    buffered_tags = s.tags.clone();
                    cx.probe("c16_batch_begun_without_sync");
                    continue;
                }
                let own_tags: Vec<Tag> = if s.tags.is_empty() { std::mem::take(&mut buffered_tags) } else { buffered_tags.clear(); s.tags.clone() };
                let starts_txn = !holding;
                // after this step: in transaction mode the server is kept iff status != I;
                // in session mode it is kept for good once the first request was served
                let after = match s.outcome {
                    StepOutcome::Ready(b'I') => session,
                    StepOutcome::Ready(_) => true,
                    _ => false,
                };
                if starts_txn && s.start_seq > *ack && s.start_seq < *resume_sent {
                    // sent after the PAUSE was acknowledged: must not reach a server before RESUME is sent
                    let mut first: Option<u64> = None;
                    for t in &own_tags {
                        if let Some(v) = cx.ix.units_by_tag.get(t) {
                            for (ci, ui) in v {
                                let u = &h.backend_conns[*ci].units[*ui];
                                if is_pooler_prepare_unit(u) {
                                    continue;
                                }
                                // (a unit that began before this step was sent is not of this step)
                                if u.first_seq < s.start_seq && s.tags.is_empty() {
                                    first = Some(u.first_seq);
                                }
                                if u.first_seq >= s.start_seq && first.map(|f| u.first_seq < f).unwrap_or(true) {
                                    first = Some(u.first_seq);
                                }
                            }
                        }
                    }
                    cx.probe("c16_txn_sent_while_paused");
                    match first {
                        Some(x) if x < *resume_sent => {
                            cx.v("C16", "transaction_started_while_paused", &format!("C16/transaction_started_while_paused/{}", if session { "session" } else { "transaction" }), x, format!("client {} step {} was sent (seq {}) after the PAUSE {:?} was acknowledged (seq {}) and reached a server at seq {}, before RESUME was sent (seq {})", c.id, s.idx, s.start_seq, scope, ack, x, resume_sent));
                        }
                        Some(x) if x > *resume_sent => {
                            cx.probe("c16_client_held_then_released");
                            let _ = resume_acked;
                        }
                        _ => {}
                    }
                }
                holding = after;
            }
        }
    }
    if !intervals.is_empty() {
        cx.probe("c16_pause_interval");
    }
}

/// C17 — shutdown is graceful.
pub fn c17_shutdown(cx: &mut Ctx) {
    let h = cx.h;
    let timeout_us = cx.param_u64("shutdown_timeout", 60000) * 1000;
    let how = cx.param_str("how");
    let lat = cx.spec.net.latency_ms.1 * 1000 + cx.spec.net.jitter_ms * 1000;
    let slack = 60_000 + 4 * lat;
    let raised = simcore::signal::raised();
    let sig = match raised.iter().find(|(_, _, n)| *n == 2 || *n == 15) {
        Some(s) => *s,
        None => {
            cx.probe("c17_no_signal_raised");
            return;
        }
    };
    cx.probe("c17_signal_raised");
    let exit = simcore::rt::pgcat_exit();
    let kinds = cx.spec.params.get("client_kinds").cloned().unwrap_or_default();
    let kind_of = |id: u32| kinds.get(id.to_string()).and_then(|v| v.as_str()).unwrap_or("").to_string();
    let (exit_seq, exit_us) = match exit {
        Some(e) => e,
        None => {
            cx.v("C17", "no_exit", &format!("C17/no_exit/{}", how), sig.0, format!("signal {} was raised at {} ms but PgCat's main never returned (shutdown_timeout {} ms)", sig.2, sig.1 / 1000, timeout_us / 1000));
            return;
        }
    };
    if sig.2 == 15 {
        if exit_us > sig.1 + 20_000 {
            cx.v("C17", "sigterm_not_immediate", "C17/sigterm_not_immediate", exit_seq, format!("SIGTERM at {} ms, main returned at {} ms", sig.1 / 1000, exit_us / 1000));
        }
        cx.probe("c17_sigterm");
        return;
    }
    // ---- SIGINT / SHUTDOWN ----
    if exit_us > sig.1 + timeout_us + slack {
        cx.v("C17", "exit_after_timeout", "C17/exit_later_than_shutdown_timeout", exit_seq, format!("SIGINT at {} ms, shutdown_timeout {} ms, but main returned only at {} ms", sig.1 / 1000, timeout_us / 1000, exit_us / 1000));
    }
    let admin_msg = "terminating connection due to administrator command";
    let mut all_gone_us = sig.1;
    let mut someone_outlives_timeout = false;
    for c in h.clients.values() {
        let k = kind_of(c.id);
        if c.role == "admin" && k != "admin_arrival" {
            continue;
        }
        let session = cx.pool_mode(&c.database, &c.user) == "session";
        let end_us = c.steps.last().map(|s| s.done_us).unwrap_or(c.connect_us);
        match k.as_str() {
            "idle" | "idle_fresh" => {
                let holds_server = session && k == "idle";
                let hold = c.steps.iter().find(|s| s.op == "hold");
                if let Some(hs) = hold {
                    let told = hs.msgs.iter().any(|m| m.ty == b'E' && proto::error_fields(&m.body).get(&'M').map(|x| x.contains(admin_msg)).unwrap_or(false));
                    if !holds_server {
                        if hs.start_us + 1_000 < sig.1 && c.auth_result == "ok" {
                            cx.probe("c17_idle_client_at_signal");
                            if !told && hs.done_us + 5_000 < exit_us {
                                cx.v("C17", "idle_client_not_notified", "C17/idle_client_closed_without_error", hs.done_seq, format!("idle client {} was disconnected at {} ms without the administrator-command error", c.id, hs.done_us / 1000));
                            }
                            if hs.done_us > sig.1 + slack && hs.done_us + 5_000 < exit_us || (!told && exit_us > sig.1 + slack + 20_000 && hs.done_us + 5_000 >= exit_us) {
                                cx.v("C17", "idle_client_not_disconnected", "C17/idle_client_kept_after_sigint", hs.done_seq, format!("transaction-mode client {} was idle at SIGINT ({} ms) but was only released at {} ms (told: {}; exit at {} ms)", c.id, sig.1 / 1000, hs.done_us / 1000, told, exit_us / 1000));
                            }
                            all_gone_us = all_gone_us.max(hs.done_us.min(sig.1 + slack));
                        }
                    } else {
                        someone_outlives_timeout = true;
                    }
                }
            }
            "mid_txn_short" | "mid_txn_long" => {
                // was a transaction of this client in progress (as far as the client knows: it had
                // received ReadyForQuery 'T' and no later 'I') when the signal was raised?
                let mut in_progress = false;
                for s in c.steps.iter().filter(|s| s.op == "send" && s.done_us < sig.1) {
                    match s.outcome {
                        StepOutcome::Ready(b'I') => in_progress = false,
                        StepOutcome::Ready(_) => in_progress = true,
                        _ => {}
                    }
                }
                if !in_progress {
                    continue;
                }
                cx.probe("c17_mid_transaction_client_at_signal");
                let mut finished_txn = false;
                for s in &c.steps {
                    if s.op != "send" {
                        continue;
                    }
                    match &s.outcome {
                        StepOutcome::Ready(st) => {
                            if *st == b'I' && s.start_us > c.connect_us {
                                finished_txn = s.tags.iter().any(|t| t.s >= 3) || finished_txn;
                            }
                        }
                        StepOutcome::Closed(_) | StepOutcome::Timeout => {
                            // cut: only acceptable at process exit
                            if s.done_us + 5_000 < exit_us {
                                cx.v("C17", "in_progress_transaction_killed", "C17/in_progress_transaction_killed", s.done_seq, format!("client {} was inside a transaction at SIGINT; its step {} was cut at {} ms, before the process exited ({} ms; SIGINT {} ms, timeout {} ms)", c.id, s.idx, s.done_us / 1000, exit_us / 1000, sig.1 / 1000, timeout_us / 1000));
                            } else if k == "mid_txn_short" && exit_us + slack < sig.1 + timeout_us {
                                cx.v("C17", "exit_before_transaction_finished", "C17/exit_before_transaction_finished", s.done_seq, format!("client {}'s transaction (due to end well inside the shutdown timeout) was cut by the process exit at {} ms; SIGINT {} ms, timeout {} ms", c.id, exit_us / 1000, sig.1 / 1000, timeout_us / 1000));
                            }
                        }
                        _ => {}
                    }
                }
                if k == "mid_txn_short" && finished_txn {
                    cx.probe("c17_in_progress_transaction_finished");
                }
                if k == "mid_txn_long" {
                    someone_outlives_timeout = true;
                }
                // afterwards idle (transaction mode): told to go
                if let Some(hs) = c.steps.iter().find(|s| s.op == "hold") {
                    if !session && hs.start_us + slack < exit_us {
                        let told = hs.msgs.iter().any(|m| m.ty == b'E' && proto::error_fields(&m.body).get(&'M').map(|x| x.contains(admin_msg)).unwrap_or(false));
                        if !told && hs.done_us + 5_000 < exit_us {
                            cx.v("C17", "idle_client_not_notified", "C17/idle_client_closed_without_error", hs.done_seq, format!("client {} became idle after its transaction and was disconnected without the administrator-command error", c.id));
                        }
                        // it must be sent away as soon as it is idle, not kept until the timeout
                        if hs.start_us > sig.1 && hs.done_us > hs.start_us + slack + 20_000 {
                            cx.v("C17", "idle_client_not_disconnected", "C17/idle_client_kept_after_transaction_end", hs.done_seq, format!("client {} finished its transaction at {} ms, during shutdown, and stayed connected and idle until {} ms (exit at {} ms)", c.id, hs.start_us / 1000, hs.done_us / 1000, exit_us / 1000));
                        }
                        cx.probe("c17_client_idle_after_in_progress_transaction");
                    }
                    if session {
                        someone_outlives_timeout = true;
                    }
                }
                all_gone_us = all_gone_us.max(end_us);
            }
            "mid_batch" => {
                // Between Parse/Bind/Execute and Sync at the signal: no transaction is in progress
                // on any server, so PgCat may send it away at once or let the batch run; either
                // way it is told to go, and is not kept until the timeout.
                if session {
                    // holds its server for the whole session once it has run something
                    if c.steps.iter().filter(|s| s.op == "send").next().map(|s| matches!(s.outcome, StepOutcome::Ready(_)) && s.done_us + 1_000 < sig.1).unwrap_or(false) && c.steps.iter().any(|s| s.op == "hold") {
                        someone_outlives_timeout = true;
                    }
                    continue;
                }
                // (judged only if its Parse/Bind/Execute were out before the signal)
                let first_part_out = c.steps.iter().filter(|s| s.op == "send").nth(1).map(|s| s.done_us + 1_000 < sig.1).unwrap_or(false);
                if c.auth_result != "ok" || !first_part_out {
                    continue;
                }
                cx.probe("c17_client_between_batch_messages_at_signal");
                let told = c.steps.iter().any(|s| s.msgs.iter().any(|m| m.ty == b'E' && proto::error_fields(&m.body).get(&'M').map(|x| x.contains(admin_msg)).unwrap_or(false)));
                if let Some(hs) = c.steps.iter().find(|s| s.op == "hold") {
                    let idle_from = hs.start_us.max(sig.1);
                    if hs.done_us > idle_from + slack + 20_000 {
                        cx.v("C17", "idle_client_not_disconnected", "C17/client_between_batch_messages_kept_after_sigint", hs.done_seq, format!("client {} was between the messages of a batch at SIGINT ({} ms); its batch ended at {} ms and it stayed connected and idle until {} ms (told: {}; exit at {} ms)", c.id, sig.1 / 1000, hs.start_us / 1000, hs.done_us / 1000, told, exit_us / 1000));
                    } else if !told && hs.done_us + 5_000 < exit_us {
                        cx.v("C17", "idle_client_not_notified", "C17/idle_client_closed_without_error", hs.done_seq, format!("client {} became idle after its batch and was disconnected without the administrator-command error", c.id));
                    }
                } else if !told && end_us + 5_000 < exit_us && c.steps.last().map(|s| s.outcome == StepOutcome::Closed("eof".into())).unwrap_or(false) {
                    // (a client that wrote its Sync into a connection PgCat had already closed gets
                    // a reset, which discards the error message on its way: nothing to judge)
                    cx.v("C17", "idle_client_not_notified", "C17/idle_client_closed_without_error", c.connect_seq, format!("client {} (between the messages of a batch at SIGINT) was disconnected at {} ms without the administrator-command error", c.id, end_us / 1000));
                }
                all_gone_us = all_gone_us.max(end_us);
            }
            "arrival" => {
                if c.connect_us + 5_000 < exit_us && c.connected {
                    cx.probe("c17_new_client_during_shutdown");
                    if c.auth_ok_seq.is_some() || c.auth_result == "ok" {
                        cx.v("C17", "new_client_admitted", "C17/new_client_admitted_during_shutdown", c.auth_ok_seq.unwrap_or(0), format!("non-admin client {} connected at {} ms, after SIGINT ({} ms), and was authenticated", c.id, c.connect_us / 1000, sig.1 / 1000));
                    } else if !c.auth_result.contains("administrator command") && end_us + slack < exit_us {
                        cx.v("C17", "new_client_wrong_error", "C17/new_client_refused_without_admin_error", c.connect_seq, format!("non-admin client {} arriving during shutdown got {:?} instead of the administrator-command error", c.id, c.auth_result));
                    }
                }
            }
            "admin_arrival" => {
                let last = c.steps.iter().filter(|s| s.op == "send").last();
                if c.connected && last.map(|s| s.done_us + slack < exit_us).unwrap_or(false) {
                    cx.probe("c17_admin_login_during_shutdown");
                    if c.auth_result != "ok" {
                        cx.v("C17", "admin_refused", "C17/admin_refused_during_shutdown", c.connect_seq, format!("admin client {} could not log in during shutdown: {}", c.id, c.auth_result));
                    }
                    for s in c.steps.iter().filter(|s| s.op == "send") {
                        if !step_ok(s) {
                            cx.v("C17", "admin_refused", "C17/admin_command_failed_during_shutdown", s.done_seq, format!("admin client {} step {} ended {:?}", c.id, s.idx, s.outcome));
                        }
                    }
                }
            }
            _ => {}
        }
    }
    // exits once everybody has left (not only when the timeout fires): every non-admin client
    // that was ever admitted, and the moment its connection ended as seen by the client itself
    let mut last_end = sig.1;
    for c in h.clients.values() {
        if c.role == "admin" || c.database == "pgcat" || c.auth_result != "ok" {
            continue;
        }
        let end = c.steps.last().map(|s| s.done_us).unwrap_or(c.connect_us).max(c.connect_us);
        let end = if c.finished { end } else { u64::MAX / 4 };
        last_end = last_end.max(end);
    }
    let _ = all_gone_us;
    if last_end + slack + 40_000 < sig.1 + timeout_us {
        cx.probe("c17_all_clients_gone_before_timeout");
        if exit_us > last_end + slack + 40_000 {
            cx.v("C17", "exit_not_prompt", "C17/exit_waits_for_timeout_although_all_clients_left", exit_seq, format!("every non-admin client had left by {} ms, but main returned only at {} ms (SIGINT {} ms, timeout {} ms)", last_end / 1000, exit_us / 1000, sig.1 / 1000, timeout_us / 1000));
        }
    }
    if someone_outlives_timeout {
        cx.probe("c17_timeout_path");
        if exit_us + slack < sig.1 + timeout_us {
            cx.v("C17", "exit_too_early", "C17/exit_before_timeout_with_clients_connected", exit_seq, format!("main returned at {} ms although a client was still connected and the shutdown timeout ({} ms after SIGINT at {} ms) had not passed", exit_us / 1000, timeout_us / 1000, sig.1 / 1000));
        }
    }
    // results of transactions that straddled the signal are byte-exact
    data::relay_check(cx, "C17", false);
}

fn db_rows(msgs: &[Msg]) -> BTreeSet<Vec<String>> {
    // SHOW DATABASES: name, host, port, database, force_user, pool_size, min_pool_size, reserve_pool, pool_mode, max_connections, [current_connections, paused, disabled]
    rows_of(msgs).into_iter().map(|r| r.into_iter().take(10).collect()).collect()
}

fn cfg_rows(msgs: &[Msg]) -> BTreeSet<Vec<String>> {
    rows_of(msgs).into_iter().map(|r| r.into_iter().take(2).collect()).collect()
}

/// C14 — live reload is safe.
pub fn c14_reload(cx: &mut Ctx) {
    let h = cx.h;
    let variant = cx.param_str("variant");
    let valid = cx.param_bool("valid");
    let (begin_seq, _begin_us) = match crate::world::fired_at("reload_begin") {
        Some(x) => x,
        None => return,
    };
    let (done_seq, done_us) = match crate::world::fired_at("reloaded") {
        Some(x) => x,
        None => return,
    };
    cx.probe("c14_reload_happened");
    let class = if valid { "valid" } else { "invalid" };
    // ---- admin console before / after ----
    let mut show: Vec<(u64, String, &StepRec)> = Vec::new();
    for a in h.clients.values().filter(|c| c.role == "admin" && c.id <= 501) {
        for s in &a.steps {
            if s.op == "send" && step_ok(s) {
                let sql = proto::split_all(&s.sent).0.first().and_then(|m| proto::Reader::new(&m.body).cstr()).unwrap_or_default();
                show.push((s.done_seq, sql, s));
            }
        }
    }
    let before_db = show.iter().filter(|(q, sql, _)| sql == "SHOW DATABASES" && *q < begin_seq).map(|(_, _, s)| db_rows(&s.msgs)).last();
    let after_db = show.iter().filter(|(q, sql, _)| sql == "SHOW DATABASES" && *q > done_seq).map(|(_, _, s)| db_rows(&s.msgs)).next();
    let before_cfg = show.iter().filter(|(q, sql, _)| sql == "SHOW CONFIG" && *q < begin_seq).map(|(_, _, s)| cfg_rows(&s.msgs)).last();
    let after_cfg = show.iter().filter(|(q, sql, _)| sql == "SHOW CONFIG" && *q > done_seq).map(|(_, _, s)| cfg_rows(&s.msgs)).next();
    if let (Some(b), Some(a)) = (&before_db, &after_db) {
        cx.probe("c14_console_compared");
        let same = a == b;
        match variant.as_str() {
            "add_pool" => {
                if !a.iter().any(|r| r.first().map(|n| n.starts_with("db3_")).unwrap_or(false)) {
                    cx.v("C14", "new_pool_missing", "C14/valid/added_pool_not_listed", done_seq, "SHOW DATABASES after the reload does not list the added pool db3".into());
                }
            }
            "remove_pool" => {
                if a.iter().any(|r| r.first().map(|n| n.starts_with("db2_")).unwrap_or(false)) {
                    cx.v("C14", "removed_pool_still_listed", "C14/valid/removed_pool_still_listed", done_seq, "SHOW DATABASES after the reload still lists the removed pool db2".into());
                }
            }
            "change_servers" => {
                if !a.iter().any(|r| r.get(1).map(|n| n == "pg-db2-alt").unwrap_or(false)) {
                    cx.v("C14", "changed_pool_not_applied", "C14/valid/changed_servers_not_listed", done_seq, "SHOW DATABASES after the reload does not list the new server of db2".into());
                }
            }
            "change_user_pool_size" => {
                // SHOW DATABASES: name, host, port, database, force_user, pool_size, ...
                if !a.iter().any(|r| r.first().map(|n| n.starts_with("db2_")).unwrap_or(false) && r.get(5).map(|v| v == "3").unwrap_or(false)) {
                    cx.v("C14", "changed_pool_not_applied", "C14/valid/changed_pool_size_not_listed", done_seq, "SHOW DATABASES after the reload does not show pool_size 3 for db2".into());
                }
            }
            "change_pool_mode" => {
                if !a.iter().any(|r| r.first().map(|n| n.starts_with("db2_")).unwrap_or(false) && r.get(8).map(|v| v == "session").unwrap_or(false)) {
                    cx.v("C14", "changed_pool_not_applied", "C14/valid/changed_pool_mode_not_listed", done_seq, "SHOW DATABASES after the reload does not show pool_mode session for db2".into());
                }
            }
            "add_pool_server_down" | "change_general" | "swap_roles" | "change_user_password" => {}
            _ => {
                if !same {
                    let diff: Vec<&Vec<String>> = a.symmetric_difference(b).collect();
                    cx.v("C14", "databases_changed", &format!("C14/{}/{}/show_databases_changed", class, if valid { "unchanged" } else { "rejected_file" }), done_seq, format!("SHOW DATABASES differs across a reload that must change nothing ({}): {:?}", variant, diff));
                }
            }
        }
    }
    if let (Some(b), Some(a)) = (&before_cfg, &after_cfg) {
        let must_be_same = !valid || variant == "unchanged";
        if must_be_same && a != b {
            let diff: Vec<&Vec<String>> = a.symmetric_difference(b).collect();
            cx.v("C14", "config_changed", &format!("C14/{}/show_config_changed", class), done_seq, format!("SHOW CONFIG differs across a reload that must change nothing ({}): {:?}", variant, diff));
        }
        if variant == "change_general" && !a.iter().any(|r| r.first().map(|k| k == "ban_time").unwrap_or(false) && r.get(1).map(|v| v == "77").unwrap_or(false)) {
            cx.v("C14", "config_not_applied", "C14/valid/general_setting_not_applied", done_seq, "SHOW CONFIG after the reload does not show ban_time = 77".into());
        }
    }
    // ---- an invalid (or unchanged) file never makes PgCat touch servers that only the new file names ----
    if !valid || variant == "unchanged" {
        for c in &h.backend_conns {
            if c.host.starts_with("pg-db3-") || c.host.starts_with("pg-db2-alt") {
                cx.v("C14", "invalid_config_applied", &format!("C14/{}/connected_to_server_of_rejected_config", class), c.opened_seq, format!("PgCat opened a connection to {} which only appears in the {} file", c.host, variant));
            }
        }
    }
    // ---- connections of the unchanged pool survive the reload ----
    for c in &h.backend_conns {
        if !c.host.starts_with("pg-db-") || c.kind != "session" || (valid && variant == "swap_roles") {
            continue;
        }
        if let Some(cs) = c.closed_seq {
            if cs > begin_seq && c.closed_us.unwrap_or(0) < done_us + 100_000 && (c.close_how == "eof" || c.close_how == "terminate" || c.close_how == "reset") {
                cx.v("C14", "unchanged_pool_connection_closed", &format!("C14/{}/unchanged_pool_connection_closed", class), cs, format!("server connection pid {} of the unchanged pool db was closed by PgCat during the reload ({})", c.pid, c.close_how));
            }
        }
    }
    // ---- clients ----
    let db3_client = cx.param_u64("db3_client", 0) as u32;
    let db2_late = cx.param_u64("db2_late_client", 0) as u32;
    let db_role_client = cx.param_u64("db_role_client", 0) as u32;
    let old_password_client = cx.param_u64("old_password_client", 0) as u32;
    for c in h.clients.values() {
        if !is_data_client(c) {
            continue;
        }
        let removed_pool = valid && variant == "remove_pool" && c.database == "db2";
        if c.id == old_password_client && old_password_client != 0 {
            // the password of the replaced file, presented after the reload was acknowledged
            if c.connect_seq > done_seq {
                if c.auth_result == "ok" {
                    cx.v("C14", "old_definition_used", "C14/valid/login_with_replaced_password", c.connect_seq, format!("client {} logged in to db2 with the password of the old file after the reload that changed it", c.id));
                } else {
                    cx.probe("c14_replaced_password_refused");
                }
            }
            continue;
        }
        if c.database == "db" || (c.database == "db2" && !removed_pool) {
            if c.id == db2_late && !(c.database == "db2") {
                continue;
            }
            if c.auth_result != "ok" {
                cx.v("C14", "client_refused", &format!("C14/{}/client_of_existing_pool_refused", class), c.connect_seq, format!("client {} of pool {} could not log in: {}", c.id, c.database, c.auth_result));
                continue;
            }
            let mut idle = true;
            let mut asked_role = String::new();
            for s in &c.steps {
                if s.op != "send" && s.op != "copyin" {
                    continue;
                }
                let text = String::from_utf8_lossy(&s.sent).to_string();
                if let Some(i) = text.find("SET SERVER ROLE TO '") {
                    asked_role = text[i + 20..].split('\'').next().unwrap_or("").to_string();
                }
                let failed = !step_ok(s) || pooler_error(&s.msgs).is_some();
                if failed {
                    let phase = if s.start_seq < begin_seq { "before" } else if s.start_seq > done_seq { "after" } else { "during" };
                    cx.v("C14", "transaction_broken", &format!("C14/{}/{}/transaction_failed_{}_reload/pool={}", class, variant_class(&variant), phase, c.database), s.done_seq, format!("client {} (pool {}) step {} failed around the reload: {:?} {:?}", c.id, c.database, s.idx, s.outcome, pooler_error(&s.msgs)));
                    break;
                }
                // where did it run?
                let hosts = hosts_of_step(&cx.ix, h, s);
                for hn in &hosts {
                    let ok_prefix = if c.database == "db" { "pg-db-" } else { "pg-db2-" };
                    if !hn.starts_with(ok_prefix) {
                        cx.v("C14", "wrong_pool_servers", &format!("C14/{}/statement_on_another_pools_server", class), s.done_seq, format!("client {} of pool {} had step {} executed on {}", c.id, c.database, s.idx, hn));
                    }
                }
                if valid && variant == "change_servers" && c.database == "db2" && idle {
                    if s.start_seq > done_seq && hosts.iter().any(|x| x == "pg-db2-p:5432") {
                        cx.v("C14", "old_definition_used", "C14/valid/transaction_started_after_reload_on_old_servers", s.done_seq, format!("client {} started a transaction (step {}) after the reload was acknowledged and it ran on the old server pg-db2-p", c.id, s.idx));
                    }
                    if s.start_seq > done_seq && hosts.iter().any(|x| x == "pg-db2-alt:5432") {
                        cx.probe("c14_new_definition_used");
                    }
                    if s.done_seq < begin_seq && hosts.iter().any(|x| x == "pg-db2-alt:5432") {
                        cx.v("C14", "new_definition_too_early", "C14/valid/new_servers_used_before_reload", s.done_seq, format!("client {} step {} ran on pg-db2-alt before any reload was requested", c.id, s.idx));
                    }
                }
                // the roles of pool db as the configuration in force defines them
                if c.id == db_role_client && !s.tags.is_empty() && c.connect_seq > done_seq {
                    let swapped = valid && variant == "swap_roles";
                    let want = match (asked_role.as_str(), swapped) {
                        ("primary", false) | ("replica", true) => "pg-db-p:5432",
                        _ => "pg-db-r:5432",
                    };
                    if hosts.iter().any(|x| x != want) {
                        cx.v("C14", "roles_not_in_effect", &format!("C14/{}/{}/role_{}_served_by_wrong_server_after_reload", class, variant_class(&variant), asked_role), s.done_seq, format!("client {} asked pool db for role {} after the reload ({}), step {} ran on {:?}; the configuration in force names {}", c.id, asked_role, variant, s.idx, hosts, want));
                    } else if !hosts.is_empty() {
                        cx.probe("c14_roles_after_reload_checked");
                    }
                }
                if s.start_seq < begin_seq && s.done_seq > done_seq {
                    cx.probe("c14_transaction_straddled_reload");
                }
                idle = matches!(s.outcome, StepOutcome::Ready(b'I'));
            }
        } else if removed_pool {
            // transactions started after the acknowledgement must be refused, and nothing of them reaches any server
            let mut idle = true;
            if c.connect_seq > done_seq {
                if c.auth_result == "ok" {
                    cx.v("C14", "removed_pool_reachable", "C14/valid/login_to_removed_pool", c.connect_seq, format!("client {} logged in to the removed pool db2 after the reload", c.id));
                } else {
                    cx.probe("c14_removed_pool_refused");
                }
            }
            for s in &c.steps {
                if s.op != "send" {
                    continue;
                }
                if idle && s.start_seq > done_seq {
                    let hosts = hosts_of_step(&cx.ix, h, s);
                    if !hosts.is_empty() {
                        cx.v("C14", "removed_pool_served", "C14/valid/transaction_on_removed_pool_served", s.done_seq, format!("client {} started a transaction (step {}) on the removed pool db2 after the reload and it was executed on {:?}", c.id, s.idx, hosts));
                    } else {
                        cx.probe("c14_removed_pool_refused");
                    }
                } else if s.start_seq < begin_seq && s.done_seq < begin_seq && (!step_ok(s) || pooler_error(&s.msgs).is_some()) {
                    cx.v("C14", "transaction_broken", "C14/valid/remove_pool/transaction_failed_before_reload", s.done_seq, format!("client {} step {} failed before the reload", c.id, s.idx));
                }
                for hn in hosts_of_step(&cx.ix, h, s) {
                    if !hn.starts_with("pg-db2-") {
                        cx.v("C14", "wrong_pool_servers", "C14/valid/removed_pool_client_on_another_pools_server", s.done_seq, format!("client {} of removed pool db2 had step {} executed on {}", c.id, s.idx, hn));
                    }
                }
                idle = matches!(s.outcome, StepOutcome::Ready(b'I'));
            }
        } else if c.database == "db3" && c.id == db3_client {
            let expect_ok = valid && (variant == "add_pool" || variant == "add_pool_server_down");
            if expect_ok {
                if c.auth_result != "ok" {
                    let fp = if variant == "add_pool_server_down" { "C14/valid/added_pool_unreachable_after_server_was_down_at_reload" } else { "C14/valid/added_pool_unreachable" };
                    cx.v("C14", "new_pool_unreachable", fp, c.connect_seq, format!("client {} connecting to the added pool db3 after the reload was acknowledged got: {}", c.id, c.auth_result));
                } else {
                    for s in c.steps.iter().filter(|s| s.op == "send") {
                        let hosts = hosts_of_step(&cx.ix, h, s);
                        if !step_ok(s) || pooler_error(&s.msgs).is_some() || hosts.iter().any(|x| x != "pg-db3-p:5432") || hosts.is_empty() {
                            cx.v("C14", "new_pool_unreachable", "C14/valid/added_pool_not_served", s.done_seq, format!("client {} of the added pool db3: step {} ended {:?} on {:?}", c.id, s.idx, s.outcome, hosts));
                        } else {
                            cx.probe("c14_added_pool_served");
                        }
                    }
                }
            } else if c.auth_result == "ok" {
                cx.v("C14", "invalid_config_applied", &format!("C14/{}/login_to_pool_of_rejected_config", class), c.connect_seq, format!("client {} logged in to db3, which only exists in the {} file", c.id, variant));
            } else {
                cx.probe("c14_pool_of_rejected_config_refused");
            }
        }
    }
}

fn variant_class(v: &str) -> &str {
    v
}

pub fn hosts_of_step(ix: &Index, h: &History, s: &StepRec) -> Vec<String> {
    let mut v = Vec::new();
    for t in &s.tags {
        if let Some(us) = ix.units_by_tag.get(t) {
            for (ci, _) in us {
                let hn = h.backend_conns[*ci].host.clone();
                if !v.contains(&hn) {
                    v.push(hn);
                }
            }
        }
    }
    v
}

fn col(hdr: &[String], row: &[String], name: &str) -> String {
    hdr.iter().position(|h| h == name).and_then(|i| row.get(i)).cloned().unwrap_or_default()
}

/// C18 — the admin console lists every client and server connection once, with its true state,
/// totals equal what was executed, nothing decreases, everything returns to zero.
pub fn c18_stats(cx: &mut Ctx) {
    let h = cx.h;
    let roles = cx.spec.params.get("c18_roles").cloned().unwrap_or_default();
    let role_of = |id: u32| roles.get(id.to_string()).and_then(|v| v.as_str()).unwrap_or("").to_string();
    let admin = match h.clients.get(&500) {
        Some(a) => a,
        None => return,
    };
    let mut samples: BTreeMap<u32, BTreeMap<String, &StepRec>> = BTreeMap::new();
    for s in &admin.steps {
        if s.op == "send" && step_ok(s) && s.txn > 0 {
            let sql = proto::split_all(&s.sent).0.first().and_then(|m| proto::Reader::new(&m.body).cstr()).unwrap_or_default();
            samples.entry(s.txn).or_default().insert(sql, s);
        }
    }
    let session = cx.pool_mode("db", "app") == "session";
    // ---- sample 1: everybody is parked at the barrier ----
    if let Some(s1) = samples.get(&1) {
        cx.probe("c18_sample_at_barrier");
        let sample_seq = s1.values().map(|s| s.start_seq).min().unwrap_or(0);
        // who is connected (authenticated, not finished) at the sample?
        let mut connected: Vec<u32> = Vec::new();
        let mut expect_active: Vec<u32> = Vec::new();
        for c in h.clients.values() {
            if c.database != "db" || c.auth_result != "ok" {
                continue;
            }
            if c.finished && c.finished_seq < sample_seq {
                continue;
            }
            if c.ready_seq.map(|r| r > sample_seq).unwrap_or(true) {
                continue;
            }
            connected.push(c.id);
            let r = role_of(c.id);
            let ran_something = c.steps.iter().any(|s| s.op == "send" && s.done_seq < sample_seq && step_ok(s) && pooler_error(&s.msgs).is_none());
            if r == "holder" || (session && ran_something) {
                expect_active.push(c.id);
            }
        }
        if let Some(s) = s1.get("SHOW CLIENTS") {
            let hdr = header_of(&s.msgs);
            // (every listed client belongs to the pool or is an admin: nobody else is connected)
            for r in rows_of(&s.msgs).iter().filter(|r| col(&hdr, r, "database") != "db" && col(&hdr, r, "database") != "pgcat") {
                cx.v("C18", "client_listing", "C18/show_clients/ghost_client_of_no_pool", s.done_seq, format!("SHOW CLIENTS lists a client of database {:?} (user {:?}, application {:?}, state {}); no such client is connected", col(&hdr, r, "database"), col(&hdr, r, "user"), col(&hdr, r, "application_name"), col(&hdr, r, "state")));
            }
            let rows: Vec<Vec<String>> = rows_of(&s.msgs).into_iter().filter(|r| col(&hdr, r, "database") == "db").collect();
            let mut seen: BTreeMap<String, usize> = BTreeMap::new();
            for r in &rows {
                *seen.entry(col(&hdr, r, "application_name")).or_insert(0) += 1;
            }
            for id in &connected {
                let n = seen.get(&format!("cl{}", id)).cloned().unwrap_or(0);
                if n != 1 {
                    cx.v("C18", "client_listing", &format!("C18/show_clients/connected_client_listed_{}_times", n.min(2)), s.done_seq, format!("client {} is connected at the barrier but SHOW CLIENTS lists it {} time(s)", id, n));
                }
            }
            if rows.len() != connected.len() {
                let kind = if rows.len() > connected.len() { "ghost_client" } else { "missing_client" };
                cx.v("C18", "client_listing", &format!("C18/show_clients/{}", kind), s.done_seq, format!("SHOW CLIENTS lists {} clients of db, {} are connected ({:?}); listed: {:?}", rows.len(), connected.len(), connected, seen));
            }
            for r in &rows {
                let app = col(&hdr, r, "application_name");
                let st = col(&hdr, r, "state");
                if let Some(idn) = app.strip_prefix("cl").and_then(|x| x.parse::<u32>().ok()) {
                    let want = if expect_active.contains(&idn) { "active" } else { "idle" };
                    if connected.contains(&idn) && st != want {
                        cx.v("C18", "client_state", &format!("C18/show_clients/state_{}_expected_{}", st, want), s.done_seq, format!("client {} ({}) is shown as {} at the barrier, expected {}", idn, role_of(idn), st, want));
                    }
                }
            }
        }
        if let Some(s) = s1.get("SHOW POOLS") {
            let hdr = header_of(&s.msgs);
            for r in rows_of(&s.msgs).iter().filter(|r| col(&hdr, r, "database") == "db") {
                let n = |k: &str| col(&hdr, r, k).parse::<usize>().unwrap_or(9999);
                if n("cl_idle") + n("cl_active") + n("cl_waiting") != connected.len() {
                    cx.v("C18", "pool_client_sum", "C18/show_pools/client_states_do_not_add_up", s.done_seq, format!("cl_idle {} + cl_active {} + cl_waiting {} != {} connected clients", n("cl_idle"), n("cl_active"), n("cl_waiting"), connected.len()));
                }
                if n("cl_active") != expect_active.len() || n("sv_active") != expect_active.len() {
                    cx.v("C18", "pool_active", "C18/show_pools/active_counts", s.done_seq, format!("cl_active {} sv_active {} but {} clients hold a server at the barrier ({:?})", n("cl_active"), n("sv_active"), expect_active.len(), expect_active));
                }
            }
        }
        if let Some(s) = s1.get("SHOW SERVERS") {
            let hdr = header_of(&s.msgs);
            let rows = rows_of(&s.msgs);
            let live = h.backend_conns.iter().filter(|c| c.kind == "session" && c.authed_seq.map(|a| a < sample_seq).unwrap_or(false) && simcore::net::world::pgcat_closed_at(c.net_conn).map(|(q, _)| q > s.done_seq).unwrap_or(true)).count();
            if rows.len() != live {
                cx.v("C18", "server_listing", &format!("C18/show_servers/{}", if rows.len() > live { "ghost_server" } else { "missing_server" }), s.done_seq, format!("SHOW SERVERS lists {} server connections, PgCat has {} open to the mock", rows.len(), live));
            }
            let active = rows.iter().filter(|r| col(&hdr, r, "state") == "active").count();
            if active != expect_active.len() {
                cx.v("C18", "server_state", "C18/show_servers/active_count", s.done_seq, format!("{} servers shown active, {} clients hold one", active, expect_active.len()));
            }
            let mut ids = BTreeSet::new();
            for r in &rows {
                if !ids.insert(col(&hdr, r, "server_id")) {
                    cx.v("C18", "server_listing", "C18/show_servers/listed_twice", s.done_seq, "a server connection is listed twice".into());
                }
            }
        }
    }
    // ---- sample 2: everybody has left ----
    if let Some(s2) = samples.get(&2) {
        cx.probe("c18_final_sample");
        if let Some(s) = s2.get("SHOW CLIENTS") {
            let hdr = header_of(&s.msgs);
            let rows: Vec<Vec<String>> = rows_of(&s.msgs).into_iter().filter(|r| col(&hdr, r, "database") != "pgcat").collect();
            if !rows.is_empty() {
                let who: Vec<String> = rows.iter().map(|r| format!("{}:{}", col(&hdr, r, "application_name"), col(&hdr, r, "state"))).collect();
                let kinds: Vec<String> = rows.iter().filter_map(|r| col(&hdr, r, "application_name").strip_prefix("cl").and_then(|x| x.parse::<u32>().ok())).map(|idn| role_of(idn)).collect();
                cx.v("C18", "ghost_client", &format!("C18/final/ghost_client/{}", kinds.first().cloned().unwrap_or_default()), s.done_seq, format!("all clients have left but SHOW CLIENTS still lists {:?}", who));
            }
        }
        if let Some(s) = s2.get("SHOW POOLS") {
            let hdr = header_of(&s.msgs);
            for r in rows_of(&s.msgs).iter().filter(|r| col(&hdr, r, "database") == "db") {
                for k in ["cl_idle", "cl_active", "cl_waiting", "sv_active"] {
                    if col(&hdr, r, k) != "0" {
                        cx.v("C18", "final_nonzero", &format!("C18/final/show_pools_{}_nonzero", k), s.done_seq, format!("all clients have left but SHOW POOLS shows {} = {}", k, col(&hdr, r, k)));
                    }
                }
            }
        }
        if let Some(s) = s2.get("SHOW SERVERS") {
            let hdr = header_of(&s.msgs);
            for r in rows_of(&s.msgs) {
                if col(&hdr, &r, "state") == "active" {
                    cx.v("C18", "final_nonzero", "C18/final/server_left_active", s.done_seq, format!("all clients have left but SHOW SERVERS shows {} active", col(&hdr, &r, "address_id")));
                }
            }
        }
        if let Some(s) = s2.get("SHOW LISTS") {
            for r in rows_of(&s.msgs) {
                if (r.first().map(|x| x == "used_clients" || x == "used_servers").unwrap_or(false)) && r.get(1).map(|x| x != "0").unwrap_or(false) {
                    cx.v("C18", "final_nonzero", &format!("C18/final/show_lists_{}_nonzero", r[0]), s.done_seq, format!("all clients have left but SHOW LISTS shows {} = {}", r[0], r[1]));
                }
            }
        }
        // totals: requests and transactions actually executed on the servers
        if let Some(s) = s2.get("SHOW STATS") {
            let hdr = header_of(&s.msgs);
            let mut xact = 0u64;
            let mut query = 0u64;
            for r in rows_of(&s.msgs) {
                xact += col(&hdr, &r, "total_xact_count").parse::<u64>().unwrap_or(0);
                query += col(&hdr, &r, "total_query_count").parse::<u64>().unwrap_or(0);
            }
            let mut units = 0u64;
            let mut idle_units = 0u64;
            for c in &h.backend_conns {
                if c.kind != "session" {
                    continue;
                }
                for u in &c.units {
                    if u.tags.is_empty() || is_pooler_unit(u) || u.rfq == 0 || u.first_seq > s.start_seq {
                        continue;
                    }
                    units += 1;
                    if u.rfq == b'I' {
                        idle_units += 1;
                    }
                }
            }
            cx.probe("c18_totals_compared");
            if query != units {
                cx.v("C18", "query_total", "C18/totals/total_query_count", s.done_seq, format!("SHOW STATS total_query_count sums to {}, the servers executed {} client requests", query, units));
            }
            if xact != idle_units {
                cx.v("C18", "xact_total", "C18/totals/total_xact_count", s.done_seq, format!("SHOW STATS total_xact_count sums to {}, {} client requests ended a transaction on the servers", xact, idle_units));
            }
        }
        // monotone totals between the two samples
        if let (Some(a), Some(b)) = (samples.get(&1).and_then(|m| m.get("SHOW STATS")), s2.get("SHOW STATS")) {
            let ha = header_of(&a.msgs);
            let hb = header_of(&b.msgs);
            for ra in rows_of(&a.msgs) {
                let inst = col(&ha, &ra, "instance");
                if let Some(rb) = rows_of(&b.msgs).into_iter().find(|r| col(&hb, r, "instance") == inst) {
                    for k in ["total_xact_count", "total_query_count", "total_received", "total_sent", "total_xact_time", "total_query_time", "total_wait_time", "total_errors"] {
                        let va = col(&ha, &ra, k).parse::<u64>().unwrap_or(0);
                        let vb = col(&hb, &rb, k).parse::<u64>().unwrap_or(0);
                        if vb < va {
                            cx.v("C18", "total_decreased", &format!("C18/totals/{}_decreased", k), b.done_seq, format!("{} of {} went from {} to {}", k, inst, va, vb));
                        }
                    }
                    cx.probe("c18_monotone_compared");
                }
            }
        }
    }
}

/// C15 — an accepted configuration is a servable configuration.
///
/// This oracle runs only when PgCat accepted the file (a refusal at startup ends the child
/// with the CONFIG status and is turned into a verdict by the parent). Kinds the property lists
/// as not servable must not get here. Otherwise: no panic, the pooler is alive, every probe
/// (user, shard id as written in the file, role) was executed on one of the servers the file
/// lists for that shard and role, the default-shard probe on the default shard, and the admin
/// commands were answered.
pub fn c15_config(cx: &mut Ctx) {
    let h = cx.h;
    let kind = cx.param_str("c15_kind");
    let expect = cx.param_str("c15_expect");
    let plan = cx.spec.params.get("c15_plan").cloned().unwrap_or_default();
    cx.probe("c15_config_accepted");
    cx.probe(&format!("c15_accepted_{}", kind));
    if expect == "reject" {
        cx.v("C15", "unservable_accepted", &format!("C15/unservable_config_accepted/{}", kind), 0, format!("a configuration with {} was accepted at startup", kind));
    }
    for p in &h.panics {
        let loc = p.split(" at ").nth(1).unwrap_or("").split(':').take(2).collect::<Vec<_>>().join(":");
        cx.v("C15", "panic", &format!("C15/panic/{}/{}", kind, loc.replace("/repo/", "")), 0, format!("configuration kind {}: {}", kind, p));
    }
    if let Some((seq, us)) = simcore::rt::pgcat_exit() {
        cx.v("C15", "pooler_terminated", &format!("C15/pooler_terminated/{}", kind), seq, format!("configuration kind {}: PgCat's main ended at {} ms", kind, us / 1000));
    }
    for c in h.clients.values() {
        if c.role == "admin" {
            for s in c.steps.iter().filter(|s| s.op == "send") {
                cx.probe("c15_admin_step_checked");
                let err = s.msgs.iter().any(|m| m.ty == b'E');
                if !matches!(s.outcome, StepOutcome::Ready(_)) || err {
                    cx.v("C15", "admin_failed", &format!("C15/admin_command_failed/{}", kind), s.done_seq, format!("configuration kind {}: admin step {} ended {:?}", kind, s.idx, s.outcome));
                }
            }
            if c.auth_result != "ok" {
                cx.v("C15", "admin_failed", &format!("C15/admin_login_failed/{}", kind), c.connect_seq, format!("configuration kind {}: admin login: {}", kind, c.auth_result));
            }
            continue;
        }
        if c.role != "probe" {
            continue;
        }
        for s in c.steps.iter().filter(|s| s.op == "send" && !s.tags.is_empty()) {
            let tag = s.tags[0];
            let entry = match plan.get(tag.to_string()) {
                Some(e) => e.clone(),
                None => continue,
            };
            let execs: Vec<usize> = cx.ix.exec_by_tag.get(&tag).cloned().unwrap_or_default();
            let errs: Vec<String> = c.steps.iter().flat_map(|x| x.msgs.iter()).filter(|m| m.ty == b'E').map(|m| proto::error_fields(&m.body).get(&'M').cloned().unwrap_or_default()).collect();
            if let Some(ds) = entry.get("default_shard").and_then(|v| v.as_str()) {
                cx.probe("c15_default_shard_probe_checked");
                let want: Option<i32> = ds.strip_prefix("shard_").and_then(|x| x.parse::<i32>().ok());
                if execs.is_empty() {
                    cx.v("C15", "cannot_serve", &format!("C15/accepted_config_cannot_serve_default_shard/{}", kind), s.done_seq, format!("configuration kind {} (default_shard {}): the probe of user {} without shard selection was executed nowhere; login {}, errors {:?}", kind, ds, c.user, c.auth_result, errs));
                }
                for ei in &execs {
                    let host = &h.backend_conns[h.stmts[*ei].conn].host;
                    let label = cx.spec.hosts.iter().find(|x| &x.addr == host).map(|x| x.shard).unwrap_or(-2);
                    if let Some(w) = want {
                        if label != w {
                            cx.v("C15", "misroute", &format!("C15/accepted_config_misroutes_default_shard/{}", kind), h.stmts[*ei].rec.seq, format!("configuration kind {}: default_shard {} but the probe ran on {} (shard {})", kind, ds, host, label));
                        }
                    }
                }
                continue;
            }
            cx.probe("c15_probe_checked");
            let hosts: Vec<String> = entry.get("hosts").and_then(|v| v.as_array()).map(|a| a.iter().filter_map(|x| x.as_str().map(|s| s.to_string())).collect()).unwrap_or_default();
            let shard_id = entry.get("shard_id").and_then(|v| v.as_str()).unwrap_or("").to_string();
            let role = entry.get("role").and_then(|v| v.as_str()).unwrap_or("").to_string();
            if execs.is_empty() {
                cx.v("C15", "cannot_serve", &format!("C15/accepted_config_cannot_serve/{}", kind), s.done_seq, format!("configuration kind {}: shard {:?} role {} user {} could not be addressed (the file lists {:?} for it); login {}, errors {:?}", kind, shard_id, role, c.user, hosts, c.auth_result, errs));
            }
            for ei in &execs {
                let host = &h.backend_conns[h.stmts[*ei].conn].host;
                if !hosts.contains(host) {
                    cx.v("C15", "misroute", &format!("C15/accepted_config_misroutes/{}", kind), h.stmts[*ei].rec.seq, format!("configuration kind {}: the probe for shard {:?} role {} ran on {}, the file lists {:?} for that shard and role", kind, shard_id, role, host, hosts));
                }
            }
        }
        // a probe that could not even log in or select its shard
        if c.steps.iter().all(|s| s.tags.is_empty()) {
            let errs: Vec<String> = c.steps.iter().flat_map(|x| x.msgs.iter()).filter(|m| m.ty == b'E').map(|m| proto::error_fields(&m.body).get(&'M').cloned().unwrap_or_default()).collect();
            cx.v("C15", "cannot_serve", &format!("C15/accepted_config_probe_stopped_early/{}", kind), c.connect_seq, format!("configuration kind {}: probe client {} (user {}) never reached its statement: login {}, errors {:?}", kind, c.id, c.user, c.auth_result, errs));
        }
    }
}
