//! Oracles: checks over the recorded history of one run. Each oracle is named; a spec lists
//! the oracles to evaluate. A violation carries (property, oracle, fingerprint): the
//! fingerprint names the cause class without schedule detail, so that known findings can be
//! matched narrowly and the minimiser can tell "same violation" from "another one".

use crate::proto::{self, Msg};
use crate::spec::{Spec, Violation};
use crate::sqlmini::Tag;
use crate::world::{BackendConn, ClientRec, History, StepOutcome, StepRec, Unit, HIST};
use std::collections::{BTreeMap, BTreeSet};

pub mod cache;
pub mod control;
pub mod data;
pub mod mirror;
pub mod router;
pub mod routing;
pub mod security;

pub struct Ctx<'a> {
    pub spec: &'a Spec,
    pub h: &'a History,
    pub completed: bool,
    pub out: Vec<Violation>,
    pub probes: BTreeMap<String, u64>,
    pub ix: Index,
}

impl<'a> Ctx<'a> {
    pub fn v(&mut self, property: &str, oracle: &str, fp: &str, seq: u64, msg: String) {
        if self.out.iter().any(|v| v.property == property && v.oracle == oracle && v.fingerprint == fp) {
            return;
        }
        if self.out.len() >= 40 {
            return;
        }
        self.out.push(Violation { property: property.into(), oracle: oracle.into(), fingerprint: fp.into(), seq, msg });
    }
    pub fn probe(&mut self, name: &str) {
        *self.probes.entry(name.to_string()).or_insert(0) += 1;
    }
    pub fn probe_n(&mut self, name: &str, n: u64) {
        if n > 0 {
            *self.probes.entry(name.to_string()).or_insert(0) += n;
        }
    }
    pub fn pool_param(&self, db: &str, user: &str, key: &str) -> Option<serde_json::Value> {
        self.spec.params.get("pools").and_then(|p| p.get(format!("{}/{}", db, user))).and_then(|p| p.get(key)).cloned()
    }
    pub fn pool_mode(&self, db: &str, user: &str) -> String {
        self.pool_param(db, user, "mode").and_then(|v| v.as_str().map(|s| s.to_string())).unwrap_or_else(|| "transaction".into())
    }
    pub fn param_bool(&self, key: &str) -> bool {
        self.spec.params.get(key).and_then(|v| v.as_bool()).unwrap_or(false)
    }
    pub fn param_u64(&self, key: &str, default: u64) -> u64 {
        self.spec.params.get(key).and_then(|v| v.as_u64()).unwrap_or(default)
    }
    pub fn param_str(&self, key: &str) -> String {
        self.spec.params.get(key).and_then(|v| v.as_str()).unwrap_or("").to_string()
    }
}

/// Cross references computed once per run.
#[derive(Default)]
pub struct Index {
    /// tag -> indices into h.stmts (statements that actually executed, i.e. via Simple/Execute)
    pub exec_by_tag: BTreeMap<Tag, Vec<usize>>,
    /// tag -> (conn idx, unit idx) of units whose inbound bytes contain the tag
    pub units_by_tag: BTreeMap<Tag, Vec<(usize, usize)>>,
}

pub fn build_index(h: &History) -> Index {
    let mut ix = Index::default();
    for (i, s) in h.stmts.iter().enumerate() {
        if matches!(s.rec.via, crate::pgsession::Via::Simple | crate::pgsession::Via::Execute) {
            for t in &s.rec.tags {
                ix.exec_by_tag.entry(*t).or_default().push(i);
            }
        }
    }
    for (ci, c) in h.backend_conns.iter().enumerate() {
        for (ui, u) in c.units.iter().enumerate() {
            let mut seen = BTreeSet::new();
            for t in &u.tags {
                if seen.insert(*t) {
                    ix.units_by_tag.entry(*t).or_default().push((ci, ui));
                }
            }
        }
    }
    ix
}

pub fn unit_clients(u: &Unit) -> Vec<u32> {
    let mut v: Vec<u32> = u.tags.iter().map(|t| t.c).collect();
    v.sort();
    v.dedup();
    v
}

/// Parsed view of a request unit's inbound messages.
pub fn unit_msgs(u: &Unit) -> Vec<Msg> {
    proto::split_all(&u.in_bytes).0
}

/// A unit PgCat issues on its own behalf: health check, rollback/cleanup, parameter sync,
/// prepared-statement maintenance.
pub fn is_pooler_unit(u: &Unit) -> bool {
    if !u.tags.is_empty() {
        // a pooler-initiated Parse of a cached statement carries the client's SQL (and tag);
        // recognise it by shape: only Parse/Close messages with PGCAT_ names, then Sync
        return is_pooler_prepare_unit(u);
    }
    let msgs = unit_msgs(u);
    if msgs.len() == 1 && msgs[0].ty == b'Q' {
        let sql = proto::Reader::new(&msgs[0].body).cstr().unwrap_or_default();
        return is_pooler_sql(&sql);
    }
    is_pooler_prepare_unit(u)
}

pub fn is_pooler_sql(sql: &str) -> bool {
    let s = sql.trim();
    s == ";" || s == "ROLLBACK" || s.starts_with("RESET ROLE;") || s == "DISCARD ALL" || s == "DEALLOCATE ALL" || (s.starts_with("SET ") && s.contains(" TO '") && s.ends_with(';'))
}

pub fn is_pooler_prepare_unit(u: &Unit) -> bool {
    let msgs = unit_msgs(u);
    if msgs.len() < 2 || msgs.last().map(|m| m.ty) != Some(b'S') {
        return false;
    }
    for m in &msgs[..msgs.len() - 1] {
        match m.ty {
            b'P' => {
                let name = proto::Reader::new(&m.body).cstr().unwrap_or_default();
                if !name.starts_with("PGCAT_") {
                    return false;
                }
            }
            b'C' => {
                let mut r = proto::Reader::new(&m.body);
                let _ = r.u8();
                let name = r.cstr().unwrap_or_default();
                if !name.starts_with("PGCAT_") {
                    return false;
                }
            }
            _ => return false,
        }
    }
    true
}

/// Is this reply (as received by a client) generated by the pooler rather than a server?
/// PgCat's own errors carry SQLSTATE 58000 and severity FATAL.
pub fn pooler_error(msgs: &[Msg]) -> Option<String> {
    for m in msgs {
        if m.ty == b'E' {
            let f = proto::error_fields(&m.body);
            if f.get(&'C').map(|s| s.as_str()) == Some("58000") {
                return Some(f.get(&'M').cloned().unwrap_or_default());
            }
        }
    }
    None
}

pub fn server_error(msgs: &[Msg]) -> Option<(String, String)> {
    for m in msgs {
        if m.ty == b'E' {
            let f = proto::error_fields(&m.body);
            let code = f.get(&'C').cloned().unwrap_or_default();
            if code != "58000" {
                return Some((code, f.get(&'M').cloned().unwrap_or_default()));
            }
        }
    }
    None
}

pub fn client_pool_key(c: &ClientRec) -> (String, String) {
    (c.database.clone(), c.user.clone())
}

pub fn is_data_client(c: &ClientRec) -> bool {
    matches!(c.role.as_str(), "worker" | "canary" | "probe")
}

pub fn evaluate(spec: &Spec, completed: bool) -> Vec<Violation> {
    let h = HIST.lock();
    let ix = build_index(&h);
    let mut cx = Ctx { spec, h: &h, completed, out: Vec::new(), probes: BTreeMap::new(), ix };
    for o in &spec.oracles {
        match o.as_str() {
            "liveness" => control::liveness(&mut cx),
            "no_panic" => control::no_panic(&mut cx),
            "c01_isolation" => data::c01_isolation(&mut cx),
            "c02_clean_handoff" => data::c02_clean_handoff(&mut cx),
            "c03_relay" => data::c03_relay(&mut cx),
            "c03_flush" => data::c03_flush(&mut cx),
            "c04_bound" => control::c04_bound(&mut cx),
            "c04_capacity" => control::c04_capacity(&mut cx),
            // "staying usable" after a refusal: what a client sends and receives afterwards is still its own
            "c04_usable" => data::relay_check(&mut cx, "C04", false),
            "c12_params" => data::c12_params(&mut cx),
            "c08_cache" => cache::c08_cache(&mut cx),
            "c16_pause" => control::c16_pause(&mut cx),
            "c17_shutdown" => control::c17_shutdown(&mut cx),
            "c14_reload" => control::c14_reload(&mut cx),
            "c18_stats" => control::c18_stats(&mut cx),
            "c09_auth" => security::c09_auth(&mut cx),
            "c10_cancel" => security::c10_cancel(&mut cx),
            "c11_hostile" => security::c11_hostile(&mut cx),
            "c13_commands" => router::c13_commands(&mut cx),
            "c06_shards" => router::c06_shards(&mut cx),
            "c05_roles" => router::c05_roles(&mut cx),
            "c19_plugins" => router::c19_plugins(&mut cx),
            "c20_mirrors" => mirror::c20_mirrors(&mut cx),
            "c15_config" => control::c15_config(&mut cx),
            "c07_bans" => routing::c07_bans(&mut cx),
            "c07_expiry" => routing::c07_expiry(&mut cx),
            other => {
                cx.v("HARNESS", "unknown_oracle", other, 0, format!("unknown oracle {}", other));
            }
        }
    }
    let probes = std::mem::take(&mut cx.probes);
    let out = std::mem::take(&mut cx.out);
    drop(cx);
    drop(h);
    let mut hh = HIST.lock();
    for (k, v) in probes {
        *hh.probes.entry(k).or_insert(0) += v;
    }
    out
}

pub fn summary(h: &History) -> String {
    let steps: usize = h.clients.values().map(|c| c.steps.len()).sum();
    let units: usize = h.backend_conns.iter().map(|c| c.units.len()).sum();
    format!(
        "clients={} steps={} backend_conns={} units={} stmts={} cancels={} actions={}",
        h.clients.len(),
        steps,
        h.backend_conns.len(),
        units,
        h.stmts.len(),
        h.cancels.len(),
        h.actions.len()
    )
}

/// Steps of data clients, in order.
pub fn data_steps<'a>(h: &'a History) -> Vec<(&'a ClientRec, &'a StepRec)> {
    let mut v = Vec::new();
    for c in h.clients.values() {
        if !is_data_client(c) {
            continue;
        }
        for s in &c.steps {
            v.push((c, s));
        }
    }
    v
}

pub fn step_ok(s: &StepRec) -> bool {
    matches!(s.outcome, StepOutcome::Ready(_))
}

pub fn conn_of<'a>(h: &'a History, idx: usize) -> &'a BackendConn {
    &h.backend_conns[idx]
}
