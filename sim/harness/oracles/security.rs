//! Security oracles: C09 (authentication), C10 (cancel), C11 (hostile bytes).

use super::*;

/// C09 — no access without valid credentials.
pub fn c09_auth(cx: &mut Ctx) {
    let h = cx.h;
    let kinds = cx.spec.params.get("c09_kinds").cloned().unwrap_or_default();
    let kind_of = |id: u32| kinds.get(id.to_string()).and_then(|v| v.as_str()).unwrap_or("").to_string();
    let auth_query = cx.param_bool("auth_query");
    let shadow_change_us = cx.param_u64("shadow_change_ms", 0) * 1000;
    let trust_user = cx.param_bool("trust_user");
    let boot_lookup_down = cx.param_bool("boot_lookup_down");
    // PgCat keeps the fetched auth_query secret until a response fails to match it, and only
    // then fetches again: the old password stays the configured secret until the first login
    // with the new one replaced it.
    let new_secret_seen_seq: Option<u64> = h
        .clients
        .values()
        .filter(|c| c.user == "app" && c.database == "db")
        .filter_map(|c| match (&c.salt, &c.password_msg, c.auth_ok_seq) {
            (Some(salt), Some(msg), Some(ok)) if proto::password(&proto::md5_password_body("app", "newpw", salt)).bytes() == *msg => Some(ok),
            _ => None,
        })
        .min();
    // graceful shutdown: SIGINT as seen by the process
    let sigint = simcore::signal::raised().iter().find(|(_, _, n)| *n == 2).cloned();
    // configured secrets (the reference check)
    let secret = |db: &str, user: &str, at_us: u64, at_seq: u64| -> Option<(bool, Vec<String>)> {
        // returns (trust, acceptable cleartext passwords)
        if db == "pgcat" || db == "pgbouncer" {
            return if user == "admin" { Some((false, vec!["adminpw".into()])) } else { Some((false, vec![])) };
        }
        if db != "db" {
            return None;
        }
        match user {
            "app" => {
                if auth_query && shadow_change_us > 0 {
                    if at_us + 20_000 < shadow_change_us {
                        Some((false, vec!["apppw".into()]))
                    } else if new_secret_seen_seq.map(|s| at_seq > s).unwrap_or(false) && at_us > shadow_change_us + 20_000 {
                        Some((false, vec!["newpw".into()]))
                    } else {
                        Some((false, vec!["apppw".into(), "newpw".into()]))
                    }
                } else {
                    Some((false, vec!["apppw".into()]))
                }
            }
            "other" => Some((false, vec!["otherpw".into()])),
            "trusty" if trust_user => Some((true, vec![])),
            _ => None,
        }
    };
    let mut salts: BTreeMap<[u8; 4], u32> = BTreeMap::new();
    for c in h.clients.values() {
        if !c.connected {
            continue;
        }
        let k = kind_of(c.id);
        let admitted = c.auth_ok_seq.is_some();
        let sec = secret(&c.database, &c.user, c.connect_us, c.connect_seq);
        let is_admin_db = c.database == "pgcat" || c.database == "pgbouncer";
        let during_shutdown = sigint.map(|(_, us, _)| c.connect_us > us + 1_000).unwrap_or(false);
        // reference verdict
        let expected: Option<bool> = if during_shutdown && !is_admin_db {
            cx.probe("c09_login_during_shutdown");
            Some(false)
        } else {
            match (&sec, &c.salt, &c.password_msg) {
            (None, _, _) => Some(false),
            (Some((true, _)), _, _) => Some(true),
            (Some((false, pws)), Some(salt), Some(msg)) => {
                let ok = pws.iter().any(|pw| proto::password(&proto::md5_password_body(&c.user, pw, salt)).bytes() == *msg);
                Some(ok)
            }
            (Some((false, _)), _, None) => Some(false), // never answered the challenge
            (Some((false, _)), None, _) => Some(false),
            }
        };
        if let Some(s) = c.salt {
            if let Some(prev) = salts.insert(s, c.id) {
                cx.v("C09", "salt_reused", "C09/salt_reused", c.connect_seq, format!("clients {} and {} were issued the same MD5 salt {:02x?}", prev, c.id, s));
            }
            cx.probe("c09_md5_challenge_seen");
        }
        match expected {
            Some(false) => {
                cx.probe(&format!("c09_attack_{}", if k.is_empty() { "other" } else { k.as_str() }));
                if admitted {
                    cx.v("C09", "admitted_without_credentials", &format!("C09/admitted_without_valid_credentials/{}", k), c.auth_ok_seq.unwrap_or(0), format!("client {} ({}, user {:?}, database {:?}, behaviour {}) received AuthenticationOk although its password response is not the correct answer to the salt issued on its connection", c.id, k, c.user, c.database, cx.spec.clients.iter().find(|x| x.id == c.id).map(|x| x.auth.clone()).unwrap_or_default()));
                }
                // nothing it sent may reach any server
                let mine: Vec<&crate::world::StmtEntry> = h.stmts.iter().filter(|e| e.rec.tags.iter().any(|t| t.c == c.id)).collect();
                if let Some(e) = mine.first() {
                    cx.v("C09", "unauthenticated_traffic_at_server", &format!("C09/unauthenticated_traffic_reached_server/{}", k), e.rec.seq, format!("a statement of unauthenticated client {} ({}) was executed by backend pid {}", c.id, k, h.backend_conns[e.conn].pid));
                }
                for (ci, bc) in h.backend_conns.iter().enumerate() {
                    for u in &bc.units {
                        if u.tags.iter().any(|t| t.c == c.id) {
                            cx.v("C09", "unauthenticated_traffic_at_server", &format!("C09/unauthenticated_traffic_reached_server/{}", k), u.first_seq, format!("bytes of unauthenticated client {} ({}) reached backend conn {}", c.id, k, ci));
                        }
                    }
                }
            }
            Some(true) => {
                cx.probe("c09_valid_login");
                let lookup_unavailable = auth_query && c.user == "app" && boot_lookup_down && crate::world::fired_at("lookup_repaired").map(|(_, us)| c.connect_us < us + 20_000).unwrap_or(true);
                // the property is "admitted only if": a refused valid login is outside it (the
                // secret may be unobtainable, the pool may be down); counted, not judged
                if admitted {
                    cx.probe("c09_valid_login_admitted");
                    if during_shutdown {
                        cx.probe("c09_admin_admitted_during_shutdown");
                    }
                } else if !lookup_unavailable {
                    cx.probe("c09_valid_login_refused");
                }
            }
            None => {}
        }
    }
}
