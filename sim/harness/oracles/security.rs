//! Security oracles: C09 (authentication), C10 (cancel), C11 (hostile bytes).

use super::*;

/// C09 — no access without valid credentials.
pub fn c09_auth(cx: &mut Ctx) {
    let h = cx.h;
    let kinds = cx.spec.params.get("c09_kinds").cloned().unwrap_or_default();
    let kind_of = |id: u32| kinds.get(id.to_string()).and_then(|v| v.as_str()).unwrap_or("").to_string();
    let auth_query = cx.param_bool("auth_query");
    let shadow_change_us = cx.param_u64("shadow_change_ms", 0) * 1000;
    let trust_user = cx.param_bool("trust_user");
    let boot_lookup_down = cx.param_bool("boot_lookup_down");
    // PgCat keeps the fetched auth_query secret until a response fails to match it, and only
    // then fetches again: the old password stays the configured secret until the first login
    // with the new one replaced it.
    let new_secret_seen_seq: Option<u64> = h
        .clients
        .values()
        .filter(|c| c.user == "app" && c.database == "db")
        .filter_map(|c| match (&c.salt, &c.password_msg, c.auth_ok_seq) {
            (Some(salt), Some(msg), Some(ok)) if proto::password(&proto::md5_password_body("app", "newpw", salt)).bytes() == *msg => Some(ok),
            _ => None,
        })
        .min();
    // graceful shutdown: SIGINT as seen by the process
    let sigint = simcore::signal::raised().iter().find(|(_, _, n)| *n == 2).cloned();
    // configured secrets (the reference check)
    let secret = |db: &str, user: &str, at_us: u64, at_seq: u64| -> Option<(bool, Vec<String>)> {
        // returns (trust, acceptable cleartext passwords)
        if db == "pgcat" || db == "pgbouncer" {
            return if user == "admin" { Some((false, vec!["adminpw".into()])) } else { Some((false, vec![])) };
        }
        if db != "db" {
            return None;
        }
        match user {
            "app" => {
                if auth_query && shadow_change_us > 0 {
                    if at_us + 20_000 < shadow_change_us {
                        Some((false, vec!["apppw".into()]))
                    } else if new_secret_seen_seq.map(|s| at_seq > s).unwrap_or(false) && at_us > shadow_change_us + 20_000 {
                        Some((false, vec!["newpw".into()]))
                    } else {
                        Some((false, vec!["apppw".into(), "newpw".into()]))
                    }
                } else {
                    Some((false, vec!["apppw".into()]))
                }
            }
            "other" => Some((false, vec!["otherpw".into()])),
            "trusty" if trust_user => Some((true, vec![])),
            _ => None,
        }
    };
    let mut salts: BTreeMap<[u8; 4], u32> = BTreeMap::new();
    for c in h.clients.values() {
        if !c.connected {
            continue;
        }
        let k = kind_of(c.id);
        let admitted = c.auth_ok_seq.is_some();
        if cx.spec.clients.iter().any(|x| x.id == c.id && x.tls) && cx.param_bool("tls") {
            cx.probe(if admitted { "c09_tls_client_admitted" } else { "c09_tls_client_refused" });
        }
        let sec = secret(&c.database, &c.user, c.connect_us, c.connect_seq);
        let is_admin_db = c.database == "pgcat" || c.database == "pgbouncer";
        let during_shutdown = sigint.map(|(_, us, _)| c.connect_us > us + 1_000).unwrap_or(false);
        // reference verdict
        let expected: Option<bool> = if during_shutdown && !is_admin_db {
            cx.probe("c09_login_during_shutdown");
            Some(false)
        } else {
            match (&sec, &c.salt, &c.password_msg) {
            (None, _, _) => Some(false),
            (Some((true, _)), _, _) => Some(true),
            (Some((false, pws)), Some(salt), Some(msg)) => {
                let ok = pws.iter().any(|pw| proto::password(&proto::md5_password_body(&c.user, pw, salt)).bytes() == *msg);
                Some(ok)
            }
            (Some((false, _)), _, None) => Some(false), // never answered the challenge
            (Some((false, _)), None, _) => Some(false),
            }
        };
        if let Some(s) = c.salt {
            if let Some(prev) = salts.insert(s, c.id) {
                cx.v("C09", "salt_reused", "C09/salt_reused", c.connect_seq, format!("clients {} and {} were issued the same MD5 salt {:02x?}", prev, c.id, s));
            }
            cx.probe("c09_md5_challenge_seen");
        }
        match expected {
            Some(false) => {
                cx.probe(&format!("c09_attack_{}", if k.is_empty() { "other" } else { k.as_str() }));
                if admitted {
                    cx.v("C09", "admitted_without_credentials", &format!("C09/admitted_without_valid_credentials/{}", k), c.auth_ok_seq.unwrap_or(0), format!("client {} ({}, user {:?}, database {:?}, behaviour {}) received AuthenticationOk although its password response is not the correct answer to the salt issued on its connection", c.id, k, c.user, c.database, cx.spec.clients.iter().find(|x| x.id == c.id).map(|x| x.auth.clone()).unwrap_or_default()));
                }
                // nothing it sent may reach any server
                let mine: Vec<&crate::world::StmtEntry> = h.stmts.iter().filter(|e| e.rec.tags.iter().any(|t| t.c == c.id)).collect();
                if let Some(e) = mine.first() {
                    cx.v("C09", "unauthenticated_traffic_at_server", &format!("C09/unauthenticated_traffic_reached_server/{}", k), e.rec.seq, format!("a statement of unauthenticated client {} ({}) was executed by backend pid {}", c.id, k, h.backend_conns[e.conn].pid));
                }
                for (ci, bc) in h.backend_conns.iter().enumerate() {
                    for u in &bc.units {
                        if u.tags.iter().any(|t| t.c == c.id) {
                            cx.v("C09", "unauthenticated_traffic_at_server", &format!("C09/unauthenticated_traffic_reached_server/{}", k), u.first_seq, format!("bytes of unauthenticated client {} ({}) reached backend conn {}", c.id, k, ci));
                        }
                    }
                }
            }
            Some(true) => {
                cx.probe("c09_valid_login");
                let lookup_unavailable = auth_query && c.user == "app" && boot_lookup_down && crate::world::fired_at("lookup_repaired").map(|(_, us)| c.connect_us < us + 20_000).unwrap_or(true);
                // the property is "admitted only if": a refused valid login is outside it (the
                // secret may be unobtainable, the pool may be down); counted, not judged
                if admitted {
                    cx.probe("c09_valid_login_admitted");
                    if during_shutdown {
                        cx.probe("c09_admin_admitted_during_shutdown");
                    }
                } else if !lookup_unavailable {
                    cx.probe("c09_valid_login_refused");
                }
            }
            None => {}
        }
    }
}

/// C10 — a cancel request reaches only the requester's own running server session.
///
/// Ground truth: every CancelRequest packet that arrives at a mock backend (host, pid, key) and
/// every cancel step of a scripted client (the key it carried, when it was sent, when PgCat
/// closed that connection). A packet at a backend is justified only by a cancel step carrying
/// the key PgCat issued to some client X, sent before it, while X may have been holding exactly
/// that backend session (over-approximated hold intervals, so that the inherent race at the end
/// of a transaction is never judged). Every step justifies at most one packet.
pub fn c10_cancel(cx: &mut Ctx) {
    let h = cx.h;
    let lat = cx.spec.net.latency_ms.1 + cx.spec.net.jitter_ms;
    let slack_us = (50 + 8 * lat) * 1000;
    // key issued by PgCat -> client
    let mut owner: BTreeMap<(i32, i32), u32> = BTreeMap::new();
    for c in h.clients.values() {
        if let Some(k) = c.key {
            owner.insert(k, c.id);
        }
    }
    // hold intervals per client: (backend conn idx or None = unknown, from_us, to_us)
    let mut holds: BTreeMap<u32, Vec<(Option<usize>, u64, u64)>> = BTreeMap::new();
    for c in h.clients.values() {
        if c.database == "pgcat" || c.ready_seq.is_none() {
            continue;
        }
        let session = cx.pool_mode(&c.database, &c.user) == "session";
        // The pooler notices that a client is gone only when it next reads from it: while a
        // statement of the client is still running on a server, the session is still the client's.
        let last_exec_us = h.stmts.iter().filter(|e| e.rec.tags.iter().any(|t| t.c == c.id)).map(|e| e.us).max().unwrap_or(0);
        let end_of_client = if c.finished { h_us_of_finish(c).max(last_exec_us) } else { u64::MAX / 4 };
        let conns_of = |txn: Option<u32>| -> Vec<usize> {
            let mut v: Vec<usize> = Vec::new();
            for (ci, bc) in h.backend_conns.iter().enumerate() {
                if bc.units.iter().any(|u| u.tags.iter().any(|t| t.c == c.id && txn.map(|x| t.t == x).unwrap_or(true))) {
                    v.push(ci);
                }
            }
            v
        };
        let mut out = Vec::new();
        // Walk the program: a hold opens with the first request of a transaction (of the session, in
        // session mode) and closes when the transaction ends idle (transaction mode), when the
        // pooler takes the server away after idle_client_in_transaction_timeout (the client reads
        // the error while it sits idle), or when the client is gone.
        let idle_timeout_us = cx.param_u64("idle_timeout_ms", 0) * 1000;
        let mut open: Option<(u64, Option<u32>)> = None; // (from_us, transaction number)
        let mut close = |open: &mut Option<(u64, Option<u32>)>, to_us: u64, out: &mut Vec<(Option<usize>, u64, u64)>| {
            if let Some((from, txn)) = open.take() {
                let cs = conns_of(if session { None } else { txn });
                if cs.is_empty() {
                    out.push((None, from, to_us));
                }
                for ci in cs {
                    out.push((Some(ci), from, to_us));
                }
            }
        };
        for s in c.steps.iter().filter(|s| s.start_seq > 0) {
            match s.op.as_str() {
                "send" | "copyin" => {
                    if open.is_none() {
                        open = Some((s.start_us, if s.txn > 0 { Some(s.txn) } else { None }));
                    }
                    if !session && matches!(s.outcome, StepOutcome::Ready(b'I')) {
                        close(&mut open, s.done_us.saturating_add(slack_us), &mut out);
                    }
                }
                "hold" => {
                    let timed_out = s.msgs.iter().any(|m| m.ty == b'E' && proto::error_fields(&m.body).get(&'M').map(|x| x.contains("idle transaction timeout")).unwrap_or(false));
                    if timed_out && idle_timeout_us > 0 {
                        cx.probe("c10_server_taken_by_idle_timeout");
                        close(&mut open, s.start_us.saturating_add(idle_timeout_us).saturating_add(slack_us), &mut out);
                    }
                }
                _ => {}
            }
        }
        close(&mut open, end_of_client.saturating_add(slack_us), &mut out);
        holds.insert(c.id, out);
    }
    // cancel steps
    struct CS<'a> {
        s: &'a StepRec,
        key: (i32, i32),
        x: Option<u32>,
        used: bool,
    }
    let mut steps: Vec<CS> = Vec::new();
    for c in h.clients.values() {
        for s in &c.steps {
            if s.op == "cancel" && s.sent.len() >= 16 && s.sent_seq > 0 {
                let pid = i32::from_be_bytes([s.sent[8], s.sent[9], s.sent[10], s.sent[11]]);
                let key = i32::from_be_bytes([s.sent[12], s.sent[13], s.sent[14], s.sent[15]]);
                steps.push(CS { s, key: (pid, key), x: owner.get(&(pid, key)).cloned(), used: false });
            }
        }
    }
    steps.sort_by_key(|c| c.s.sent_seq);
    let held = |x: u32, ci: usize, a_us: u64, b_us: u64| -> bool {
        holds.get(&x).map(|v| v.iter().any(|(c, f, t)| (c.is_none() || *c == Some(ci)) && *f <= b_us && a_us <= *t)).unwrap_or(false)
    };
    let holds_anything = |x: u32, a_us: u64, b_us: u64| -> bool { holds.get(&x).map(|v| v.iter().any(|(_, f, t)| *f <= b_us && a_us <= *t)).unwrap_or(false) };
    let mut cancels: Vec<&crate::world::CancelRec> = h.cancels.iter().collect();
    cancels.sort_by_key(|r| r.seq);
    // Packets and requests are paired one to one. Several requests can be in flight at the same
    // instant, so the pairing is a maximum matching (augmenting paths), not first come first
    // served: a packet is unjustified only if no pairing at all accounts for it.
    let mut edges: Vec<Vec<usize>> = Vec::new();
    for r in &cancels {
        let mut e = Vec::new();
        if let Some((ci, bc)) = h.backend_conns.iter().enumerate().find(|(_, bc)| bc.kind == "session" && bc.host == r.host && bc.pid == r.pid) {
            if bc.key == r.key {
                for (i, cs) in steps.iter().enumerate() {
                    if cs.s.sent_seq >= r.seq {
                        break;
                    }
                    let x = match cs.x {
                        Some(x) => x,
                        None => continue,
                    };
                    if cs.s.done_seq > 0 && r.us > cs.s.done_us.saturating_add(slack_us) {
                        continue;
                    }
                    if held(x, ci, cs.s.start_us, r.us) {
                        e.push(i);
                    }
                }
            }
        }
        edges.push(e);
    }
    fn augment(p: usize, edges: &[Vec<usize>], owner: &mut Vec<Option<usize>>, seen: &mut Vec<bool>) -> bool {
        for &st in &edges[p] {
            if seen[st] {
                continue;
            }
            seen[st] = true;
            if owner[st].is_none() || augment(owner[st].unwrap(), edges, owner, seen) {
                owner[st] = Some(p);
                return true;
            }
        }
        false
    }
    let mut owner: Vec<Option<usize>> = vec![None; steps.len()];
    for p in 0..cancels.len() {
        let mut seen = vec![false; steps.len()];
        augment(p, &edges, &mut owner, &mut seen);
    }
    let mut pairing: BTreeMap<u64, usize> = BTreeMap::new();
    for (st, o) in owner.iter().enumerate() {
        if let Some(p) = o {
            pairing.insert(cancels[*p].seq, st);
            steps[st].used = true;
        }
    }
    for r in &cancels {
        cx.probe("c10_cancel_at_backend");
        // 1. the packet names a backend session of that host, with that session's own key
        let b = h.backend_conns.iter().enumerate().find(|(_, bc)| bc.kind == "session" && bc.host == r.host && bc.pid == r.pid);
        let (ci, bc) = match b {
            Some(x) => x,
            None => {
                cx.v("C10", "cancel_target", "C10/cancel_for_nonexistent_session", r.seq, format!("CancelRequest for pid {} arrived at {}, where no such session ever existed", r.pid, r.host));
                continue;
            }
        };
        if bc.key != r.key {
            cx.v("C10", "cancel_target", "C10/cancel_with_wrong_server_key", r.seq, format!("CancelRequest for pid {} at {} carried key {} (the session's key is {})", r.pid, r.host, r.key, bc.key));
            continue;
        }
        // 2. justification: the request this packet was paired with (see `pairing` below)
        let chosen: Option<usize> = pairing.get(&r.seq).cloned();
        let mut seen_valid_unused = false;
        let mut seen_valid = false;
        for cs in steps.iter() {
            if cs.s.sent_seq >= r.seq {
                break;
            }
            if cs.x.is_none() {
                continue;
            }
            seen_valid = true;
            if cs.used {
                continue;
            }
            if cs.s.done_seq > 0 && r.us > cs.s.done_us.saturating_add(slack_us) {
                continue;
            }
            seen_valid_unused = true;
        }
        match chosen {
            Some(i) => {
                steps[i].used = true;
                let x = steps[i].x.unwrap();
                if r.hit_running {
                    if r.running_tags.iter().any(|t| t.c == x) {
                        cx.probe("c10_cancel_hit_own_statement");
                    } else {
                        cx.probe("c10_cancel_raced_with_release");
                    }
                } else {
                    cx.probe("c10_cancel_delivered_not_running");
                }
            }
            None => {
                let who: Vec<u32> = r.running_tags.iter().map(|t| t.c).collect();
                let (fp, why) = if !seen_valid {
                    ("C10/cancel_forwarded_for_unknown_key", "no cancel request with a key issued by the pooler had been sent before it".to_string())
                } else if !seen_valid_unused {
                    ("C10/cancel_duplicated", "every cancel request sent before it had already produced a packet".to_string())
                } else {
                    // classify by the state of the requester named by the nearest candidate
                    let cand = steps.iter().filter(|cs| cs.s.sent_seq < r.seq && !cs.used && cs.x.is_some()).last().unwrap();
                    let x = cand.x.unwrap();
                    let xr = &h.clients[&x];
                    let x_last_exec = h.stmts.iter().filter(|e| e.rec.tags.iter().any(|t| t.c == x)).map(|e| e.us).max().unwrap_or(0);
                    if xr.finished && h_us_of_finish(xr).max(x_last_exec).saturating_add(slack_us) < cand.s.start_us {
                        ("C10/cancel_forwarded_for_departed_client", format!("client {} (whose key the request carried) had left {} ms before the request", x, (cand.s.start_us - h_us_of_finish(xr)) / 1000))
                    } else if holds_anything(x, cand.s.start_us, r.us) {
                        ("C10/cancel_hit_other_session", format!("client {} was holding a different server session", x))
                    } else {
                        ("C10/cancel_forwarded_for_idle_client", format!("client {} held no server connection between the request ({} ms) and the packet ({} ms)", x, cand.s.start_us / 1000, r.us / 1000))
                    }
                };
                cx.v("C10", "cancel_unjustified", fp, r.seq, format!("CancelRequest for backend pid {} at {} (running there: clients {:?}): {}", r.pid, r.host, who, why));
            }
        }
    }
    // 3. completeness and the "no contact" cases, per step
    for cs in &steps {
        let s = cs.s;
        match cs.x {
            None => {
                cx.probe("c10_unknown_key_sent");
            }
            Some(x) => {
                if !cs.used {
                    if !holds_anything(x, s.start_us.saturating_sub(slack_us), s.done_us.saturating_add(slack_us)) {
                        let xr = &h.clients[&x];
                        if xr.finished && h_us_of_finish(xr) < s.start_us {
                            cx.probe("c10_departed_target_no_contact");
                        } else {
                            cx.probe("c10_idle_target_no_contact");
                        }
                    }
                }
                // X's statement was asleep on a backend from before the request until well after
                // PgCat closed the cancel connection: the packet must have been delivered there
                if s.done_seq == 0 || !matches!(s.outcome, StepOutcome::Done) {
                    continue;
                }
                for e in h.stmts.iter() {
                    if !e.rec.tags.iter().any(|t| t.c == x) {
                        continue;
                    }
                    let ms = match crate::sqlmini::directive(&e.rec.sql, "sim_sleep") {
                        Some(ms) => ms,
                        None => continue,
                    };
                    let natural_end = e.start_us + ms * 1000;
                    if e.rec.seq < s.start_seq && e.start_us + 1000 < s.start_us && e.us > s.start_us && natural_end > s.done_us + slack_us {
                        let bc = &h.backend_conns[e.conn];
                        let delivered = h.cancels.iter().any(|r| r.host == bc.host && r.pid == bc.pid && r.key == bc.key && r.seq > s.start_seq);
                        if delivered {
                            cx.probe("c10_running_statement_cancelled");
                        } else {
                            cx.v("C10", "cancel_not_delivered", "C10/cancel_not_delivered", s.sent_seq, format!("client {}'s statement was running on backend pid {} at {} from {} ms (sleep {} ms); a CancelRequest with its key was sent at {} ms and closed at {} ms, but no cancel reached that session", x, bc.pid, bc.host, e.start_us / 1000, ms, s.sent_us / 1000, s.done_us / 1000));
                        }
                    }
                }
            }
        }
    }
}

fn h_us_of_finish(c: &ClientRec) -> u64 {
    c.steps.iter().map(|s| s.done_us).max().unwrap_or(c.connect_us).max(c.connect_us)
}

/// C11 — hostile bytes hurt only the sender.
///
/// Judged on the well-behaved clients of the run (canaries, the admin canary, the final
/// probes): the pooler is still running; every canary logs in and every one of its steps
/// completes without any ErrorResponse and with the transaction status its own program
/// implies; what it sent and received equals, byte for byte, what the servers received and
/// sent for it; nobody inherits session state from somebody else; no server is banned.
/// What happens to the attackers themselves is not judged.
pub fn c11_hostile(cx: &mut Ctx) {
    let h = cx.h;
    let kinds = cx.spec.params.get("c11_kinds").cloned().unwrap_or_default();
    let attack_labels: Vec<String> = kinds.as_object().map(|m| m.values().filter_map(|v| v.as_str().map(|s| s.to_string())).collect()).unwrap_or_default();
    for l in &attack_labels {
        let stage = l.split('/').next().unwrap_or("");
        cx.probe(&format!("c11_stage_{}", stage));
        for k in l.split('/').nth(1).unwrap_or("").split('+') {
            cx.probe(&format!("c11_payload_{}", k));
        }
    }
    let which = attack_labels.join(", ");
    // a. the pooler is alive
    if let Some((seq, us)) = simcore::rt::pgcat_exit() {
        let how = if simcore::rt::main_panic() { "main_task_panicked" } else { "main_returned" };
        cx.v("C11", "pooler_terminated", &format!("C11/pooler_terminated/{}", how), seq, format!("PgCat's main task ended at {} ms ({}); attackers of this run: {}", us / 1000, how, which));
    }
    // b. canaries are served, without errors, with the status their own program implies
    for c in h.clients.values() {
        let judged = matches!(c.role.as_str(), "canary" | "probe" | "admin");
        if !judged {
            continue;
        }
        if c.auth_result != "ok" {
            cx.v("C11", "canary_refused", &format!("C11/canary_login_failed/role={}", c.role), c.connect_seq, format!("well-behaved client {} ({}) could not log in: {}; attackers: {}", c.id, c.role, c.auth_result, which));
            continue;
        }
        cx.probe("c11_canary_logged_in");
        let mut in_txn = false;
        let prog = cx.spec.clients.iter().find(|x| x.id == c.id);
        for s in &c.steps {
            if s.op != "send" {
                continue;
            }
            // what the program says about the transaction state after this step
            if let Some(crate::spec::Step::Send { msgs, .. }) = prog.and_then(|p| p.steps.get(s.idx)) {
                for m in msgs {
                    if let crate::spec::FrontMsg::Q { sql } = m {
                        let up = sql.trim_start().to_ascii_uppercase();
                        if up.starts_with("BEGIN") {
                            in_txn = true;
                        } else if up.starts_with("COMMIT") || up.starts_with("ROLLBACK") {
                            in_txn = false;
                        }
                    }
                }
            }
            let errs: Vec<String> = s.msgs.iter().filter(|m| m.ty == b'E').map(|m| { let f = proto::error_fields(&m.body); format!("{} {}", f.get(&'C').cloned().unwrap_or_default(), f.get(&'M').cloned().unwrap_or_default()) }).collect();
            match &s.outcome {
                StepOutcome::Ready(st) => {
                    cx.probe("c11_canary_step_checked");
                    if !errs.is_empty() {
                        let code = errs[0].split(' ').next().unwrap_or("").to_string();
                        cx.v("C11", "canary_error", &format!("C11/canary_got_error/{}", code), s.done_seq, format!("well-behaved client {} ({}) step {} received an error it did not cause: {:?}; attackers: {}", c.id, c.role, s.idx, errs, which));
                    } else if c.role != "admin" {
                        let want = if in_txn { b'T' } else { b'I' };
                        if *st != want {
                            cx.v("C11", "canary_status", "C11/canary_wrong_transaction_status", s.done_seq, format!("well-behaved client {} step {} ended with transaction status {} where its own program implies {}; attackers: {}", c.id, s.idx, *st as char, want as char, which));
                        }
                    }
                }
                StepOutcome::Closed(how) => {
                    cx.v("C11", "canary_disconnected", &format!("C11/canary_disconnected/role={}", c.role), s.done_seq, format!("well-behaved client {} ({}) was disconnected ({}) in step {}: {:?}; attackers: {}", c.id, c.role, how, s.idx, errs, which));
                }
                _ => {}
            }
        }
    }
    // c. byte-exact relay and result attribution for the canaries
    super::data::relay_check(cx, "C11", false);
    super::data::result_attribution(cx, "C11");
    // d. nobody inherits somebody else's session state
    let before = cx.out.len();
    super::data::handoff_check(cx, true);
    for v in cx.out.iter_mut().skip(before) {
        if v.property == "C02" {
            v.property = "C11".into();
            v.fingerprint = v.fingerprint.replacen("C02/", "C11/dirty_handoff/", 1);
            v.msg = format!("{}; attackers: {}", v.msg, which);
        }
    }
    // e. no server taken out of rotation
    for n in simcore::observe::notes() {
        if n.kind == "ban" {
            cx.v("C11", "server_banned", "C11/server_banned", n.seq, format!("server {} was banned at {} ms although no server failed; attackers: {}", n.detail, n.us / 1000, which));
        }
    }
    // reach: how many server connections were lost along the way (not judged: the pool replaces them)
    let lost = h.backend_conns.iter().filter(|b| b.kind == "session" && b.closed_seq.is_some() && b.close_how != "terminate").count();
    cx.probe_n("c11_server_conn_closed_abnormally", lost as u64);
    cx.probe_n("c11_panics_in_client_tasks", h.panics.len() as u64);
}
