//! Data-path oracles: C01 (isolation), C02 (clean hand-off), C03 (relay), C12 (parameters).

use super::*;
use crate::pgsession::Via;

fn is_attacker_tag(c: u32) -> bool {
    c >= 9000
}

/// C01 — a server connection serves one client at a time, for a whole transaction.
pub fn c01_isolation(cx: &mut Ctx) {
    let h = cx.h;
    // (a) ownership timeline per backend connection
    for (ci, conn) in h.backend_conns.iter().enumerate() {
        if conn.kind != "session" {
            continue;
        }
        let mut owner: Option<u32> = None;
        let mut session_owner: Option<u32> = None;
        for u in &conn.units {
            let cl = unit_clients(u);
            let pooler_prep = !cl.is_empty() && is_pooler_prepare_unit(u);
            if cl.len() > 1 {
                cx.v("C01", "mixed_unit", "C01/mixed_unit", u.first_seq, format!("one request unit on backend conn {} (pid {}) carries tags of clients {:?}", ci, conn.pid, cl));
            }
            if pooler_prep {
                continue;
            }
            if let Some(&c) = cl.first() {
                if u.status_before != b'I' {
                    if let Some(o) = owner {
                        if o != c {
                            cx.v("C01", "foreign_statement_in_open_txn", "C01/foreign_statement_in_open_txn", u.first_seq, format!("backend conn {} (pid {}): client {} ran a statement while client {}'s transaction was open (status {})", ci, conn.pid, c, o, u.status_before as char));
                        }
                    }
                }
                // session mode: the connection belongs to the session until the client is gone
                let mode = h.clients.get(&c).map(|cr| cx.pool_mode(&cr.database, &cr.user)).unwrap_or_default();
                if let Some(so) = session_owner {
                    if so != c {
                        // gone = finished, or already in the act of leaving (its Terminate / socket
                        // close step began before this unit arrived: the pooler may have seen it first)
                        let prev_done = h
                            .clients
                            .get(&so)
                            .map(|p| (p.finished && p.finished_seq < u.first_seq) || p.steps.iter().any(|s| (s.op == "terminate" || s.op == "drop" || s.outcome == StepOutcome::Cut) && s.start_seq < u.first_seq))
                            .unwrap_or(true);
                        if !prev_done {
                            cx.v("C01", "session_conn_shared", "C01/session_conn_shared", u.first_seq, format!("backend conn {} (pid {}): client {} used it while session-mode client {} was still connected", ci, conn.pid, c, so));
                        }
                    }
                }
                if mode == "session" {
                    session_owner = Some(c);
                } else {
                    session_owner = None;
                }
                owner = Some(c);
                if u.status_before != b'I' || u.rfq != b'I' {
                    cx.probe("c01_multi_statement_txn");
                }
            }
            if u.rfq == b'I' {
                owner = None;
            }
        }
    }
    // (b) one client transaction -> one backend connection
    // A transaction as the client knows it: the program's transaction label, cut wherever the
    // client was told that no transaction is open (a BEGIN refused by the pooler, say: what the
    // program sends next are transactions of their own).
    let mut part_of_tag: BTreeMap<Tag, u32> = BTreeMap::new();
    for c in h.clients.values() {
        let mut part = 0u32;
        for s in &c.steps {
            for t in &s.tags {
                part_of_tag.entry(*t).or_insert(part);
            }
            if s.op == "send" && !matches!(s.outcome, StepOutcome::Ready(b'T') | StepOutcome::Ready(b'E')) {
                part += 1;
            }
        }
    }
    let mut conns_of_txn: BTreeMap<(u32, u32, u32), BTreeSet<usize>> = BTreeMap::new();
    for s in &h.stmts {
        if !matches!(s.rec.via, Via::Simple | Via::Execute) {
            continue;
        }
        for t in &s.rec.tags {
            if is_attacker_tag(t.c) {
                continue;
            }
            conns_of_txn.entry((t.c, t.t, part_of_tag.get(t).cloned().unwrap_or(0))).or_default().insert(s.conn);
        }
    }
    for ((c, t, _), conns) in &conns_of_txn {
        if conns.len() > 1 {
            let session = h.clients.get(c).map(|cr| cx.pool_mode(&cr.database, &cr.user) == "session").unwrap_or(false);
            let fp = if session { "C01/session_split" } else { "C01/transaction_split" };
            cx.v("C01", "transaction_split", fp, 0, format!("statements of client {} transaction {} executed on backend conns {:?}", c, t, conns));
        }
    }
    // session mode: the whole session on one connection
    let mut conns_of_client: BTreeMap<u32, BTreeSet<usize>> = BTreeMap::new();
    for ((c, _, _), conns) in &conns_of_txn {
        conns_of_client.entry(*c).or_default().extend(conns.iter().cloned());
    }
    for (c, conns) in &conns_of_client {
        if let Some(cr) = h.clients.get(c) {
            if cx.pool_mode(&cr.database, &cr.user) == "session" && conns.len() > 1 && !cx.param_bool("server_faults") {
                cx.v("C01", "session_split", "C01/session_split", 0, format!("session-mode client {} was served by backend conns {:?}", c, conns));
            }
        }
    }
    // (c) every result row a client read was produced by its own statement on its own backend
    result_attribution(cx, "C01");
    // non-triviality: contention
    let mut max_conc = 0usize;
    let mut open: BTreeSet<u32> = BTreeSet::new();
    let mut evs: Vec<(u64, bool, u32)> = Vec::new();
    for c in h.clients.values() {
        if !is_data_client(c) {
            continue;
        }
        for s in &c.steps {
            if let StepOutcome::Ready(st) = s.outcome {
                if st != b'I' {
                    evs.push((s.done_seq, true, c.id));
                } else {
                    evs.push((s.done_seq, false, c.id));
                }
            }
        }
    }
    evs.sort();
    for (_, opening, c) in evs {
        if opening {
            open.insert(c);
        } else {
            open.remove(&c);
        }
        max_conc = max_conc.max(open.len());
    }
    if max_conc >= 2 {
        cx.probe("c01_concurrent_open_txns");
    }
}

pub fn result_attribution(cx: &mut Ctx, prop: &str) {
    let h = cx.h;
    for c in h.clients.values() {
        if !is_data_client(c) {
            continue;
        }
        for s in &c.steps {
            for m in &s.msgs {
                let cols: Vec<Vec<u8>> = match m.ty {
                    b'D' => {
                        let cols = proto::data_row_cols(&m.body);
                        if cols.len() != 5 {
                            continue;
                        }
                        cols.into_iter().map(|c| c.unwrap_or_default()).collect()
                    }
                    b'd' => {
                        let parts: Vec<Vec<u8>> = m.body.split(|b| *b == b'\t').map(|p| p.to_vec()).collect();
                        if parts.len() < 3 {
                            continue;
                        }
                        parts
                    }
                    _ => continue,
                };
                // attribution: the step tag travels as bind parameter 1 (echoed in column "params")
                // when the statement text is shared or was prepared by an earlier step; otherwise
                // the tag literal of the statement itself (column "tag")
                let ptags = if cols.len() > 3 { crate::sqlmini::find_tags(&cols[3]) } else { vec![] };
                let tags = if ptags.is_empty() { crate::sqlmini::find_tags(&cols[0]) } else { ptags };
                let tag = match tags.first() {
                    Some(t) => *t,
                    None => continue,
                };
                let pid: i32 = String::from_utf8_lossy(&cols[1]).parse().unwrap_or(0);
                if tag.c != c.id {
                    cx.v(prop, "foreign_result", &format!("{}/foreign_result", prop), s.done_seq, format!("client {} step {} received a row produced for {} (backend pid {})", c.id, s.idx, tag, pid));
                    continue;
                }
                if !s.tags.contains(&tag) {
                    cx.v(prop, "stale_result", &format!("{}/stale_result", prop), s.done_seq, format!("client {} step {} received a row of its earlier statement {}", c.id, s.idx, tag));
                    continue;
                }
                let ok = cx.ix.exec_by_tag.get(&tag).map(|v| v.iter().any(|si| h.backend_conns[h.stmts[*si].conn].pid == pid)).unwrap_or(false);
                if !ok {
                    cx.v(prop, "result_from_wrong_backend", &format!("{}/result_from_wrong_backend", prop), s.done_seq, format!("client {} step {}: row for {} claims backend pid {} which did not execute it", c.id, s.idx, tag, pid));
                }
                cx.probe("attributed_rows");
            }
        }
    }
}

const TRACKED: [&str; 5] = ["client_encoding", "datestyle", "timezone", "standard_conforming_strings", "application_name"];

/// C02 — a server connection is clean whenever it changes hands.
pub fn c02_clean_handoff(cx: &mut Ctx) {
    handoff_check(cx, false);
    // the new owner's replies contain nothing but the replies to its own requests
    relay_check(cx, "C02", true);
}

/// The session-state snapshot seen by the first statement of every new owner of a backend
/// connection. `hostile_world`: some units carry no tag (hostile bytes) and only the
/// well-behaved clients are judged as recipients.
pub fn handoff_check(cx: &mut Ctx, hostile_world: bool) {
    let h = cx.h;
    let cache_on = cx.param_bool("cache_on");
    for (ci, conn) in h.backend_conns.iter().enumerate() {
        // a mirror connection replays, best effort, what several clients sent: it has no owner
        if conn.kind != "session" || is_mirror_conn(cx.spec, conn) {
            continue;
        }
        let mut prev_owner: Option<u32> = None;
        let mut prev_stop_abnormal = false;
        for u in &conn.units {
            if hostile_world && u.tags.is_empty() && !is_pooler_unit(u) {
                // somebody's untagged bytes: the owner is unknown from here on
                prev_owner = Some(u32::MAX);
                continue;
            }
            if u.tags.is_empty() || is_pooler_prepare_unit(u) {
                continue;
            }
            // clients in order of appearance inside the unit
            let mut order: Vec<u32> = Vec::new();
            for t in &u.tags {
                if order.last() != Some(&t.c) {
                    order.push(t.c);
                }
            }
            if order.len() > 1 {
                // a second client's message arrived before the previous request got its
                // ReadyForQuery: the connection changed hands mid-request (COPY IN, unread reply)
                let p = order[0];
                let stop = stop_kind(h, p);
                let copy = u.in_types.iter().any(|t| *t == b'd') || String::from_utf8_lossy(&u.in_bytes).to_ascii_uppercase().contains("COPY");
                let fp = if copy { "C02/handoff_in_copy" } else { "C02/handoff_mid_request" };
                cx.probe("c02_handoff");
                cx.v("C02", "handoff_mid_request", &format!("{}/prev_stop={}", fp, stop), u.first_seq, format!("backend conn {} (pid {}): client {}'s message reached the server while client {}'s request was still pending (no ReadyForQuery yet; copy: {}); previous owner stopped: {}", ci, conn.pid, order[1], p, copy, stop));
            }
            let c = order[0];
            let last_c = *order.last().unwrap();
            if is_attacker_tag(c) || (hostile_world && !h.clients.get(&c).map(is_data_client).unwrap_or(false)) {
                prev_owner = Some(last_c);
                continue;
            }
            if let Some(p) = prev_owner {
                if p != c {
                    // hand-off: look at the session snapshot before the first statement of this unit
                    cx.probe("c02_handoff");
                    let stop = stop_kind(h, p);
                    if stop != "normal" {
                        cx.probe("c02_handoff_after_abnormal_stop");
                        prev_stop_abnormal = true;
                    }
                    let first = u.stmt_idx.first().map(|i| &h.stmts[*i]);
                    if let Some(st) = first {
                        let snap = &st.rec.snap;
                        let how = format!("previous owner client {} (stopped: {})", p, stop);
                        if snap.txn != b'I' {
                            cx.v("C02", "handoff_in_txn", &format!("C02/handoff_in_txn/prev_stop={}", stop), st.rec.seq, format!("backend conn {} (pid {}) given to client {} inside a transaction block (status {}); {}", ci, conn.pid, c, snap.txn as char, how));
                        }
                        if snap.in_copy {
                            cx.v("C02", "handoff_in_copy", &format!("C02/handoff_in_copy/prev_stop={}", stop), st.rec.seq, format!("backend conn {} (pid {}) given to client {} while in COPY mode; {}", ci, conn.pid, c, how));
                        }
                        let leaked: Vec<String> = snap.gucs.iter().filter(|(k, _)| !TRACKED.contains(&k.as_str())).map(|(k, v)| format!("{}={}", k, v)).collect();
                        if !leaked.is_empty() {
                            let role = leaked.iter().any(|l| l.starts_with("role="));
                            let fp = if role { "C02/leaked_role" } else { "C02/leaked_guc" };
                            // Where did the value come from? A plain SET issued inside a transaction
                            // block that was then committed is a cause of its own (the pooler
                            // deliberately does not track SET inside transactions).
                            let first_key = snap.gucs.iter().find(|(k, _)| !TRACKED.contains(&k.as_str())).map(|(k, _)| k.to_ascii_uppercase()).unwrap_or_default();
                            let set_in_txn = h.stmts.iter().filter(|e| e.conn == ci && e.rec.seq < st.rec.seq).rev().find(|e| {
                                let up = e.rec.sql.trim_start().to_ascii_uppercase();
                                (up.starts_with("SET ") && !up.starts_with("SET LOCAL") && up.contains(&first_key)) || (first_key == "ROLE" && up.starts_with("SET ROLE"))
                            }).map(|e| e.rec.snap.txn == b'T').unwrap_or(false);
                            let cause = if set_in_txn { "/cause=set_inside_committed_transaction" } else { "" };
                            cx.v("C02", "leaked_session_state", &format!("{}/prev_stop={}{}", fp, stop, cause), st.rec.seq, format!("backend conn {} (pid {}) given to client {} with session parameters still set: {:?}; {}", ci, conn.pid, c, leaked, how));
                        }
                        if !snap.sql_prepared.is_empty() {
                            cx.v("C02", "leaked_sql_prepare", &format!("C02/leaked_sql_prepare/prev_stop={}", stop), st.rec.seq, format!("backend conn {} (pid {}) given to client {} with SQL-prepared statements {:?}; {}", ci, conn.pid, c, snap.sql_prepared, how));
                        }
                        if !cache_on {
                            let named: Vec<&String> = snap.prepared.iter().filter(|n| !n.is_empty()).collect();
                            if !named.is_empty() {
                                cx.v("C02", "leaked_named_statement", &format!("C02/leaked_named_statement/prev_stop={}", stop), st.rec.seq, format!("backend conn {} (pid {}) given to client {} with named protocol statements {:?}; {}", ci, conn.pid, c, named, how));
                            }
                        }
                    } else if u.status_before != b'I' {
                        cx.v("C02", "handoff_in_txn", &format!("C02/handoff_in_txn/prev_stop={}", stop), u.first_seq, format!("backend conn {} (pid {}) given to client {} with status {}", ci, conn.pid, c, u.status_before as char));
                    }
                }
            }
            prev_owner = Some(last_c);
        }
        let _ = prev_stop_abnormal;
    }
}

/// How did this client stop? ("normal" = it ended with COMMIT/ROLLBACK/Terminate at idle)
fn stop_kind(h: &History, c: u32) -> String {
    let cr = match h.clients.get(&c) {
        Some(c) => c,
        None => return "unknown".into(),
    };
    let last = match cr.steps.iter().rev().find(|s| s.op != "think" && s.op != "emit" && s.op != "wait") {
        Some(s) => s,
        None => return "normal".into(),
    };
    match &last.outcome {
        StepOutcome::Cut => {
            if last.op == "drop" {
                // plain socket close: was a transaction open?
                let prev = cr.steps.iter().rev().filter(|s| s.idx < last.idx).find(|s| matches!(s.outcome, StepOutcome::Ready(_)));
                match prev.map(|p| p.outcome.clone()) {
                    Some(StepOutcome::Ready(b'I')) | None => "drop_idle".into(),
                    _ => "drop_in_txn".into(),
                }
            } else if last.op == "copyin" {
                "drop_in_copy".into()
            } else {
                "cut_mid_message".into()
            }
        }
        StepOutcome::Closed(_) => "kicked".into(),
        StepOutcome::Timeout => "timeout".into(),
        StepOutcome::Ready(b'I') | StepOutcome::Done => {
            if !cr.finished {
                "still_connected".into()
            } else {
                "normal".into()
            }
        }
        StepOutcome::Ready(_) => "left_in_txn".into(),
        StepOutcome::NotRun => "unknown".into(),
    }
}

/// C03 — queries and replies are relayed complete, in order and unmodified.
/// C03, Flush: a batch that ends in Flush instead of Sync is a request too. PostgreSQL answers it
/// at once (ParseComplete, BindComplete, rows, CommandComplete; no ReadyForQuery); the client
/// reads for a while before it sends Sync. Whatever the client has not received by then was held
/// back by the pooler.
pub fn c03_flush(cx: &mut Ctx) {
    let h = cx.h;
    for c in h.clients.values() {
        if !is_data_client(c) || c.auth_result != "ok" {
            continue;
        }
        for (i, s) in c.steps.iter().enumerate() {
            if s.op != "send" || s.tags.is_empty() || !s.sent.ends_with(&[b'H', 0, 0, 0, 4]) {
                continue;
            }
            let hold = match c.steps.get(i + 1) {
                Some(x) if x.op == "hold" => x,
                _ => continue,
            };
            cx.probe("c03_flush_terminated_batch");
            let got: String = hold.msgs.iter().map(|m| m.ty as char).collect();
            if hold.msgs.iter().any(|m| m.ty == b'E') {
                cx.probe("c03_flush_answered_with_error");
                continue;
            }
            if !got.contains('C') && hold.outcome == StepOutcome::Done {
                cx.v("C03", "flush_not_honoured", "C03/flush_not_honoured", hold.done_seq, format!("client {} step {}: a batch ending in Flush (Parse, Bind, Execute, Flush) got {:?} within {} ms of waiting; a server answers it at once up to CommandComplete", c.id, s.idx, got, (hold.done_us - hold.start_us) / 1000));
            } else {
                cx.probe("c03_flush_answered_before_sync");
            }
        }
    }
}

pub fn c03_relay(cx: &mut Ctx) {
    relay_check(cx, "C03", false);
    result_attribution(cx, "C03");
}

fn strip_types(bytes: &[u8], drop: &[u8]) -> (Vec<u8>, BTreeMap<u8, usize>) {
    let (msgs, rest) = proto::split_all(bytes);
    let mut out = Vec::new();
    let mut counts = BTreeMap::new();
    for m in &msgs {
        if drop.contains(&m.ty) {
            *counts.entry(m.ty).or_insert(0) += 1;
        } else {
            out.extend(m.bytes());
        }
    }
    if rest > 0 {
        out.extend_from_slice(&bytes[bytes.len() - rest..]);
    }
    (out, counts)
}

/// Compare request messages that may differ only in statement names (cache on).
fn same_modulo_names(client: &[u8], backend: &[u8]) -> Result<(), String> {
    let (cm, cr) = proto::split_all(client);
    let (bm, br) = proto::split_all(backend);
    if cr != 0 || br != 0 {
        return Err("trailing partial message".into());
    }
    // with the cache on PgCat drops named Close and may drop Parse; walk both lists
    let mut bi = 0;
    for m in &cm {
        let b = bm.get(bi);
        match m.ty {
            b'P' => {
                let mut r = proto::Reader::new(&m.body);
                let name = r.cstr().unwrap_or_default();
                let rest_c = &m.body[r.pos..];
                if name.is_empty() {
                    // anonymous statements are renamed too (PgCat caches every Parse)
                }
                match b {
                    Some(bm_) if bm_.ty == b'P' => {
                        let mut rb = proto::Reader::new(&bm_.body);
                        let _ = rb.cstr();
                        if &bm_.body[rb.pos..] != rest_c {
                            return Err(format!("Parse differs beyond the name (client name {:?})", name));
                        }
                        bi += 1;
                    }
                    _ => { /* elided: already on the server */ }
                }
            }
            b'B' => {
                let mut r = proto::Reader::new(&m.body);
                let portal = r.cstr().unwrap_or_default();
                let _name = r.cstr().unwrap_or_default();
                let rest_c = &m.body[r.pos..];
                match b {
                    Some(bm_) if bm_.ty == b'B' => {
                        let mut rb = proto::Reader::new(&bm_.body);
                        let bportal = rb.cstr().unwrap_or_default();
                        let _ = rb.cstr();
                        if bportal != portal || &bm_.body[rb.pos..] != rest_c {
                            return Err("Bind differs beyond the statement name".into());
                        }
                        bi += 1;
                    }
                    _ => return Err("Bind missing at backend".into()),
                }
            }
            b'D' => {
                let kind = m.body.first().cloned().unwrap_or(0);
                match b {
                    Some(bm_) if bm_.ty == b'D' => {
                        if bm_.body.first().cloned().unwrap_or(1) != kind {
                            return Err("Describe kind differs".into());
                        }
                        if kind == b'P' && bm_.body != m.body {
                            return Err("portal Describe modified".into());
                        }
                        bi += 1;
                    }
                    _ => return Err("Describe missing at backend".into()),
                }
            }
            b'C' => {
                let kind = m.body.first().cloned().unwrap_or(0);
                let named = m.body.len() > 2;
                if kind == b'S' && named {
                    // handled by the pooler (CloseComplete synthesised)
                } else {
                    match b {
                        Some(bm_) if bm_.ty == b'C' && bm_.body == m.body => bi += 1,
                        _ => return Err("Close missing/modified at backend".into()),
                    }
                }
            }
            _ => match b {
                Some(bm_) if bm_ == m => bi += 1,
                _ => return Err(format!("message {:?} missing/modified at backend", m.ty as char)),
            },
        }
    }
    if bi != bm.len() {
        return Err(format!("backend received {} extra message(s)", bm.len() - bi));
    }
    Ok(())
}

/// For every completed client request: the backend units attributable to it received exactly
/// the bytes the client sent, and the client received exactly the bytes those units produced.
pub fn relay_check(cx: &mut Ctx, prop: &str, replies_only: bool) {
    let h = cx.h;
    let cache_on = cx.param_bool("cache_on");
    let mut claimed: BTreeSet<(usize, usize)> = BTreeSet::new();
    for c in h.clients.values() {
        if !is_data_client(c) {
            continue;
        }
        for s in &c.steps {
            if s.op != "send" && s.op != "copyin" {
                continue;
            }
            if !step_ok(s) {
                continue;
            }
            if s.tags.is_empty() {
                cx.probe("relay_unattributable_step");
                continue;
            }
            let mut units: Vec<(usize, usize)> = Vec::new();
            for t in &s.tags {
                if let Some(v) = cx.ix.units_by_tag.get(t) {
                    for cu in v {
                        if !units.contains(cu) {
                            units.push(*cu);
                        }
                    }
                }
            }
            units.retain(|(ci, ui)| {
                let u = &h.backend_conns[*ci].units[*ui];
                // the tag literal of a cached statement also travels in pooler-initiated Parse units
                !(is_pooler_prepare_unit(u)) && h.backend_conns[*ci].kind == "session" && !is_mirror_conn(cx.spec, &h.backend_conns[*ci])
            });
            // keep only units within this step's lifetime (a cached statement's tag is re-sent by
            // later Binds of *other* steps only inside pooler-prepare units, filtered above)
            units.retain(|(ci, ui)| {
                let u = &h.backend_conns[*ci].units[*ui];
                u.first_seq >= s.start_seq && u.first_seq <= s.done_seq
            });
            units.sort_by_key(|(ci, ui)| h.backend_conns[*ci].units[*ui].first_seq);
            if pooler_error(&s.msgs).is_some() {
                // part of this step was answered by the pooler itself (no connection within
                // connect_timeout, a ban, a timeout): whether that was justified is the business
                // of C04/C07; there is no server-side counterpart to compare the step with
                cx.probe("relay_pooler_error_reply");
                continue;
            }
            if units.is_empty() {
                // answered by the pooler itself (custom command, intercept, deny, elided batch)
                cx.probe("relay_step_without_unit");
                // Only Parse / named Close / Sync can be answered by the pooler's statement cache;
                // anything that binds, executes, describes or queries must reach a server.
                let (sent_msgs, _) = proto::split_all(&s.sent);
                let must_forward = sent_msgs.iter().any(|m| matches!(m.ty, b'B' | b'E' | b'D' | b'Q' | b'd' | b'c' | b'f'));
                if cx.param_bool("all_forwarded") || (must_forward && cx.param_bool("cache_on") && pooler_error(&s.msgs).is_none()) {
                    cx.v(prop, "request_not_forwarded", &format!("{}/request_not_forwarded", prop), s.done_seq, format!("client {} step {} ({:?}) completed but no backend received it", c.id, s.idx, s.tags.first()));
                }
                continue;
            }
            for u in &units {
                claimed.insert(*u);
            }
            let mut bin = Vec::new();
            let mut bout = Vec::new();
            for (ci, ui) in &units {
                let u = &h.backend_conns[*ci].units[*ui];
                bin.extend_from_slice(&u.in_bytes);
                bout.extend_from_slice(&u.out_bytes);
            }
            cx.probe("relay_compared_steps");
            if bout.len() >= 8196 {
                cx.probe("relay_reply_ge_8196");
            }
            if !replies_only {
                if !cache_on {
                    if bin != s.sent {
                        let at = first_diff(&bin, &s.sent);
                        cx.v(prop, "request_modified", &format!("{}/request_modified", prop), s.done_seq, format!("client {} step {}: backend received {} bytes, client sent {}; first difference at byte {}", c.id, s.idx, bin.len(), s.sent.len(), at));
                    }
                } else if let Err(e) = same_modulo_names(&s.sent, &bin) {
                    let fp = if cx.spec.family.contains("near_colliding") { "request_modified_cache/hash_concat_collision" } else { "request_modified_cache" };
                    cx.v(prop, "request_modified", &format!("{}/{}", prop, fp), s.done_seq, format!("client {} step {}: {}", c.id, s.idx, e));
                }
            }
            if !cache_on {
                if bout != s.recv {
                    let at = first_diff(&bout, &s.recv);
                    let fp = if s.recv.len() < bout.len() { "reply_truncated" } else if s.recv.len() > bout.len() { "reply_extra_bytes" } else { "reply_modified" };
                    cx.v(prop, "reply_modified", &format!("{}/{}", prop, fp), s.done_seq, format!("client {} step {}: backend sent {} bytes, client received {}; first difference at byte {}", c.id, s.idx, bout.len(), s.recv.len(), at));
                }
            } else {
                let (b2, bc) = strip_types(&bout, b"13");
                let (c2, cc) = strip_types(&s.recv, b"13");
                if b2 != c2 {
                    let at = first_diff(&b2, &c2);
                    cx.v(prop, "reply_modified", &format!("{}/reply_modified_cache", prop), s.done_seq, format!("client {} step {}: replies differ beyond ParseComplete/CloseComplete at byte {}", c.id, s.idx, at));
                }
                // the client must see one ParseComplete per Parse and one CloseComplete per Close it sent
                let (sent_msgs, _) = proto::split_all(&s.sent);
                let want1 = sent_msgs.iter().filter(|m| m.ty == b'P').count();
                let want3 = sent_msgs.iter().filter(|m| m.ty == b'C').count();
                let errored = server_error(&s.msgs).is_some() || pooler_error(&s.msgs).is_some();
                if !errored && (cc.get(&b'1').cloned().unwrap_or(0) != want1 || cc.get(&b'3').cloned().unwrap_or(0) != want3) {
                    cx.v(prop, "completion_count", &format!("{}/completion_count_cache", prop), s.done_seq, format!("client {} step {}: sent {} Parse / {} Close, received {} ParseComplete / {} CloseComplete", c.id, s.idx, want1, want3, cc.get(&b'1').cloned().unwrap_or(0), cc.get(&b'3').cloned().unwrap_or(0)));
                }
                let _ = bc;
            }
        }
    }
    if !replies_only {
        // nothing reaches a backend that is neither a client request nor a pooler-originated unit
        for (ci, conn) in h.backend_conns.iter().enumerate() {
            if conn.kind != "session" || is_mirror_conn(cx.spec, conn) {
                continue;
            }
            for (ui, u) in conn.units.iter().enumerate() {
                if claimed.contains(&(ci, ui)) || is_pooler_unit(u) {
                    continue;
                }
                if u.tags.is_empty() {
                    // auth_query lookups and prewarmer queries are pooler-originated too
                    let msgs = unit_msgs(u);
                    let sql = msgs.first().filter(|m| m.ty == b'Q').and_then(|m| proto::Reader::new(&m.body).cstr()).unwrap_or_default();
                    if sql.contains("user_lookup") || sql.contains("pg_shadow") {
                        continue;
                    }
                    if msgs.len() == 1 && msgs[0].ty == b'X' {
                        continue;
                    }
                    cx.probe("relay_untagged_unit");
                    if cx.param_bool("all_tagged") {
                        cx.v(prop, "unexpected_backend_traffic", &format!("{}/unexpected_backend_traffic", prop), u.first_seq, format!("backend conn {} (pid {}) received an untagged unit {:?}", ci, conn.pid, String::from_utf8_lossy(&u.in_bytes[..u.in_bytes.len().min(80)])));
                    }
                }
            }
        }
    }
}

pub fn is_mirror_conn(spec: &Spec, conn: &BackendConn) -> bool {
    spec.hosts.iter().any(|hs| hs.addr == conn.host && hs.role == "mirror")
}

fn first_diff(a: &[u8], b: &[u8]) -> usize {
    let n = a.len().min(b.len());
    for i in 0..n {
        if a[i] != b[i] {
            return i;
        }
    }
    n
}

/// C12 — a client's session parameters follow it across server connections.
pub fn c12_params(cx: &mut Ctx) {
    let h = cx.h;
    for c in h.clients.values() {
        if !is_data_client(c) || c.auth_result != "ok" {
            continue;
        }
        // what the client established: the values it was told at login, then every ParameterStatus
        let mut expect: BTreeMap<String, String> = BTreeMap::new();
        for (k, v) in &c.params {
            expect.insert(k.to_ascii_lowercase(), v.clone());
        }
        // the client must have been told the values it asked for in its startup packet
        if let Some(cs) = cx.spec.clients.iter().find(|s| s.id == c.id) {
            for (k, v) in &cs.startup_params {
                let lk = k.to_ascii_lowercase();
                if TRACKED.contains(&lk.as_str()) {
                    match expect.get(&lk) {
                        Some(told) if told == v => {}
                        other => {
                            cx.v("C12", "startup_param_not_reported", "C12/startup_param_not_reported", c.ready_seq.unwrap_or(0), format!("client {} asked for {}={:?} at startup but was told {:?}", c.id, k, v, other));
                        }
                    }
                }
            }
        }
        for s in &c.steps {
            if (s.op == "send" || s.op == "copyin") && !s.tags.is_empty() {
                // first statement executed for this step, on whichever backend
                let mut first: Option<&crate::world::StmtEntry> = None;
                for t in &s.tags {
                    if let Some(v) = cx.ix.exec_by_tag.get(t) {
                        for si in v {
                            let e = &h.stmts[*si];
                            if e.rec.seq >= s.start_seq && e.rec.seq <= s.done_seq && first.map(|f| e.rec.seq < f.rec.seq).unwrap_or(true) {
                                first = Some(e);
                            }
                        }
                    }
                }
                if let Some(e) = first {
                    cx.probe("c12_checked_statements");
                    for k in TRACKED {
                        let want = match expect.get(k) {
                            Some(w) => w,
                            None => continue,
                        };
                        let got = e.rec.snap.gucs.get(k).cloned().unwrap_or_default();
                        if &got != want {
                            // cause class: a quote in *any* tracked value breaks the whole sync message
                            let any_quote = TRACKED.iter().any(|t| expect.get(*t).map(|v| v.contains('\'')).unwrap_or(false));
                            let class = if any_quote { "value_has_quote" } else { value_class(want) };
                            cx.v("C12", "guc_mismatch", &format!("C12/guc_mismatch/{}/{}", k, class), e.rec.seq, format!("client {} step {} ({}): backend pid {} had {}={:?} but the client established {:?}", c.id, s.idx, e.rec.tags.first().map(|t| t.to_string()).unwrap_or_default(), h.backend_conns[e.conn].pid, k, got, want));
                        } else if want != &default_of(k) {
                            cx.probe("c12_nondefault_value_checked");
                        }
                    }
                }
            }
            // ParameterStatus messages in this step's reply update the expectation afterwards
            for m in &s.msgs {
                if m.ty == b'S' {
                    let mut r = proto::Reader::new(&m.body);
                    let k = r.cstr().unwrap_or_default().to_ascii_lowercase();
                    let v = r.cstr().unwrap_or_default();
                    expect.insert(k, v);
                    cx.probe("c12_parameter_status_seen");
                }
            }
        }
    }
}

fn default_of(k: &str) -> String {
    match k {
        "client_encoding" => "UTF8",
        "datestyle" => "ISO, MDY",
        "timezone" => "Etc/UTC",
        "standard_conforming_strings" => "on",
        "application_name" => "pgcat",
        _ => "",
    }
    .to_string()
}

pub fn value_class(v: &str) -> &'static str {
    if v.contains('\'') {
        "value_has_quote"
    } else if v.contains('\\') {
        "value_has_backslash"
    } else if v.contains(';') {
        "value_has_semicolon"
    } else if !v.is_ascii() {
        "value_non_ascii"
    } else if v.is_empty() {
        "value_empty"
    } else {
        "plain_value"
    }
}
