//! Router oracles: C13 (command language), C05 (roles), C06 (shards), C19 (plugins).

use super::*;
use crate::refmodel::{self, Cmd, Recognised};

fn query_text_of(step: &StepRec) -> Option<String> {
    let (msgs, rest) = proto::split_all(&step.sent);
    if rest != 0 || msgs.len() != 1 || msgs[0].ty != b'Q' {
        return None;
    }
    proto::Reader::new(&msgs[0].body).cstr()
}

/// Per-client reference state of the routing commands.
struct RefState {
    /// None = "unset"; Some(None) = some shard in range (after ANY)
    shard: Option<Option<usize>>,
    /// None = no role
    role: Option<String>,
    parser: Option<bool>,
    primary_reads: Option<bool>,
    /// a statement went through the parser since the last SET SERVER ROLE: the role shown is inferred
    role_blurred: bool,
}

/// C13 — the SET/SHOW routing commands behave as a small, exact language.
///
/// For every simple query a client sent while idle in a transaction-mode pool the hand-written
/// recogniser says command / not a command / undocumented spelling. A command: none of its
/// bytes reach a server, the reply is one of the three well-formed shapes ending in
/// ReadyForQuery(I), and SHOW agrees with the reference state built from the preceding SETs.
/// Not a command: forwarded byte for byte and the server's reply relayed byte for byte.
pub fn c13_commands(cx: &mut Ctx) {
    let h = cx.h;
    let nshards = cx.param_u64("nshards", 1) as usize;
    let function = cx.param_str("sharding_function");
    let default_role = cx.param_str("default_role");
    let pool_primary_reads = cx.param_bool("primary_reads_enabled");
    let pool_parser = cx.param_bool("query_parser_enabled");
    // every simple Query text that reached any server, with its unit
    let mut at_servers: Vec<(usize, usize, String)> = Vec::new();
    for (ci, bc) in h.backend_conns.iter().enumerate() {
        if bc.kind != "session" {
            continue;
        }
        for (ui, u) in bc.units.iter().enumerate() {
            for m in unit_msgs(u) {
                if m.ty == b'Q' {
                    if let Some(t) = proto::Reader::new(&m.body).cstr() {
                        at_servers.push((ci, ui, t));
                    }
                }
            }
        }
    }
    for c in h.clients.values() {
        if c.database == "pgcat" || c.auth_result != "ok" {
            continue;
        }
        let mut st = RefState {
            shard: None,
            role: if default_role == "primary" || default_role == "replica" { Some(default_role.clone()) } else { None },
            parser: None,
            primary_reads: None,
            role_blurred: false,
        };
        // inside a transaction block, as the client was told by the previous ReadyForQuery
        let mut in_txn_next = false;
        // has any statement of this client reached a server yet (session mode: it then holds one)
        let mut forwarded_before = false;
        let mut forwarded_now = false;
        for s in &c.steps {
            if s.op != "send" {
                continue;
            }
            forwarded_before = forwarded_before || forwarded_now;
            let in_txn = in_txn_next;
            in_txn_next = matches!(s.outcome, StepOutcome::Ready(b'T') | StepOutcome::Ready(b'E'));
            if in_txn {
                cx.probe("c13_step_inside_transaction");
            }
            let q = match query_text_of(s) {
                Some(q) => q,
                None => continue,
            };
            let rec = refmodel::recognise(&q);
            let types: Vec<u8> = s.msgs.iter().map(|m| m.ty).collect();
            let forwarded: Vec<&(usize, usize, String)> = at_servers
                .iter()
                .filter(|(ci, ui, t)| {
                    let u = &h.backend_conns[*ci].units[*ui];
                    *t == q && u.first_seq >= s.start_seq && (s.done_seq == 0 || u.first_seq <= s.done_seq)
                })
                .collect();
            forwarded_now = !forwarded.is_empty();
            let well_formed = |types: &[u8]| -> Option<&'static str> {
                match types {
                    [b'C', b'Z'] => Some("ok"),
                    [b'T', b'D', b'C', b'Z'] => Some("show"),
                    [b'E', b'Z'] => Some("error"),
                    _ => None,
                }
            };
            match rec {
                Recognised::Grey => {
                    cx.probe("c13_grey_spelling");
                    // either way; keep the reference state in step with what happened
                    if forwarded.is_empty() {
                        cx.probe("c13_grey_handled");
                        // an undocumented spelling was taken as a command: the state it may have
                        // changed is unknown from here on for this client
                        st.shard = Some(None);
                        st.role_blurred = true;
                        st.primary_reads = None;
                        break;
                    }
                }
                Recognised::NotCommand => {
                    cx.probe("c13_not_a_command");
                    if !matches!(s.outcome, StepOutcome::Ready(_)) {
                        cx.v("C13", "non_command_unanswered", "C13/non_command_not_answered", s.done_seq, format!("client {} step {} {:?}: not a command, but the step ended {:?}", c.id, s.idx, q, s.outcome));
                        break;
                    }
                    if pooler_error(&s.msgs).is_some() {
                        // no usable server for it: nothing to compare
                        cx.probe("c13_non_command_pooler_error");
                        continue;
                    }
                    if forwarded.is_empty() {
                        cx.v("C13", "non_command_swallowed", "C13/non_command_not_forwarded", s.done_seq, format!("client {} step {}: {:?} is not a documented command (it merely contains or resembles one) but no server received it; reply types {:?}", c.id, s.idx, q, String::from_utf8_lossy(&types)));
                        continue;
                    }
                    let (ci, ui, _) = forwarded[0];
                    let u = &h.backend_conns[*ci].units[*ui];
                    if u.in_bytes != s.sent {
                        cx.v("C13", "non_command_modified", "C13/non_command_modified", s.done_seq, format!("client {} step {}: {:?} reached the server as different bytes", c.id, s.idx, q));
                    }
                    if u.out_bytes != s.recv {
                        cx.v("C13", "non_command_reply_modified", "C13/non_command_reply_modified", s.done_seq, format!("client {} step {}: the server's reply to {:?} ({} bytes) differs from what the client received ({} bytes)", c.id, s.idx, q, u.out_bytes.len(), s.recv.len()));
                    }
                    if st.parser.unwrap_or(pool_parser) {
                        st.role_blurred = true;
                    }
                    cx.probe("c13_non_command_forwarded");
                }
                Recognised::Command(cmd) => {
                    cx.probe("c13_command");
                    let too_long_number = match &cmd {
                        Cmd::SetShardingKey(v) => v.parse::<i64>().is_err(),
                        Cmd::SetShard(v) => v != "ANY" && v.parse::<u64>().is_err(),
                        _ => false,
                    };
                    if too_long_number {
                        cx.probe("c13_number_beyond_64_bits");
                    }
                    let shape = if matches!(s.outcome, StepOutcome::Ready(_)) { well_formed(&types) } else { None };
                    if too_long_number && pooler_error(&s.msgs).is_some() {
                        // left to a server, and none of the requested role could take it
                        cx.probe("c13_long_number_without_server");
                        continue;
                    }
                    if too_long_number && forwarded.iter().any(|(ci, ui, _)| h.backend_conns[*ci].units[*ui].out_bytes == s.recv) && matches!(s.outcome, StepOutcome::Ready(_)) {
                        // left to a server and relayed byte for byte (the same text may have been sent
                        // by another client at the same time: any unit that matches will do)
                        cx.probe("c13_long_number_left_to_server");
                        continue;
                    }
                    if too_long_number && !forwarded.is_empty() {
                        // a number that is not a bigint: handing it to the server (which rejects
                        // it) is as good as refusing it; but then it must be relayed properly
                        let (ci, ui, _) = forwarded[0];
                        let u = &h.backend_conns[*ci].units[*ui];
                        if u.out_bytes != s.recv || !matches!(s.outcome, StepOutcome::Ready(_)) {
                            let bt: String = proto::split_all(&u.out_bytes).0.iter().map(|m| m.ty as char).collect();
                            cx.v("C13", "command_unanswered", "C13/command_with_long_number_not_answered", s.done_seq, format!("client {} step {}: {:?} ended {:?}; backend replied {:?} ({} bytes), client received {:?} ({} bytes)", c.id, s.idx, q, s.outcome, bt, u.out_bytes.len(), String::from_utf8_lossy(&types), s.recv.len()));
                        }
                        continue;
                    }
                    if too_long_number && shape.is_none() && cx.param_bool("offline") {
                        // left to a server, and there is none: whatever the client got is the
                        // business of the failover rules, not of the command language
                        cx.probe("c13_long_number_without_server");
                        break;
                    }
                    // commands carry no tag: a server that received this very text may have got it
                    // from another client that sent the same text at the same time (and, holding a
                    // server in session mode, had it forwarded)
                    let same_text_elsewhere = h.clients.values().any(|o| {
                        o.id != c.id && o.steps.iter().any(|x| x.op == "send" && x.start_seq <= s.done_seq.max(s.start_seq) && (x.done_seq == 0 || x.done_seq >= s.start_seq) && query_text_of(x).map(|t| t == q).unwrap_or(false))
                    });
                    if !forwarded.is_empty() && same_text_elsewhere && !in_txn && !(cx.pool_mode(&c.database, &c.user) == "session" && forwarded_before) {
                        cx.probe("c13_forward_attribution_ambiguous");
                        break;
                    }
                    if !forwarded.is_empty() {
                        let session_holds_server = cx.pool_mode(&c.database, &c.user) == "session" && forwarded_before;
                        let fp = if in_txn { "C13/command_forwarded/inside_transaction" } else if session_holds_server { "C13/command_forwarded/session_holds_server" } else { "C13/command_forwarded" };
                        cx.v("C13", "command_forwarded", fp, s.done_seq, format!("client {} step {}: the documented command {:?} was sent to server {}", c.id, s.idx, q, h.backend_conns[forwarded[0].0].host));
                        break;
                    }
                    let shape = match shape {
                        Some(x) => x,
                        None => {
                            let fp = if too_long_number { "C13/command_with_long_number_not_answered" } else { "C13/command_reply_malformed" };
                            cx.v("C13", "command_unanswered", fp, s.done_seq, format!("client {} step {}: the command {:?} was not answered with a well-formed reply ending in ReadyForQuery: step ended {:?}, reply message types {:?}", c.id, s.idx, q, s.outcome, String::from_utf8_lossy(&types)));
                            break;
                        }
                    };
                    if let StepOutcome::Ready(z) = s.outcome {
                        if z != b'I' {
                            cx.v("C13", "command_reply_status", "C13/command_reply_status", s.done_seq, format!("client {} step {}: reply to {:?} ends with transaction status {:?}", c.id, s.idx, q, z as char));
                        }
                    }
                    let tag_of = |msgs: &[Msg]| -> String { msgs.iter().find(|m| m.ty == b'C').and_then(|m| proto::Reader::new(&m.body).cstr()).unwrap_or_default() };
                    let shown = |msgs: &[Msg]| -> Option<(String, String)> {
                        let t = msgs.iter().find(|m| m.ty == b'T')?;
                        let d = msgs.iter().find(|m| m.ty == b'D')?;
                        let mut r = proto::Reader::new(&t.body);
                        if r.i16()? != 1 {
                            return None;
                        }
                        let name = r.cstr()?;
                        let mut r = proto::Reader::new(&d.body);
                        if r.i16()? != 1 {
                            return None;
                        }
                        let len = r.i32()?;
                        if len < 0 {
                            return None;
                        }
                        let v = r.bytes(len as usize)?;
                        Some((name, String::from_utf8_lossy(v).to_string()))
                    };
                    let mut expect_shape = "ok";
                    let mut expect_tag = "";
                    let mut expect_show: Option<(&str, Vec<String>)> = None;
                    match &cmd {
                        Cmd::SetShardingKey(v) => {
                            expect_tag = "SET SHARDING KEY";
                            match v.parse::<i64>() {
                                Ok(k) => st.shard = Some(Some(refmodel::partition(&function, k, nshards))),
                                Err(_) => expect_shape = "error_or_ok_unchanged",
                            }
                        }
                        Cmd::SetShard(v) => {
                            expect_tag = "SET SHARD";
                            if v == "ANY" {
                                st.shard = Some(None);
                            } else {
                                match v.parse::<u64>() {
                                    Ok(n) if (n as usize) < nshards && n < usize::MAX as u64 => st.shard = Some(Some(n as usize)),
                                    _ => expect_shape = "error",
                                }
                            }
                        }
                        Cmd::SetServerRole(r) => {
                            expect_tag = "SET SERVER ROLE";
                            st.role_blurred = false;
                            match r.as_str() {
                                "primary" | "replica" => {
                                    st.role = Some(r.clone());
                                    st.parser = Some(false);
                                }
                                "any" => {
                                    st.role = None;
                                    st.parser = Some(false);
                                }
                                "auto" => {
                                    st.role = None;
                                    st.parser = Some(true);
                                }
                                _ => {
                                    st.role = if default_role == "primary" || default_role == "replica" { Some(default_role.clone()) } else { None };
                                    st.parser = None;
                                }
                            }
                        }
                        Cmd::SetPrimaryReads(v) => {
                            expect_tag = "SET PRIMARY READS";
                            st.primary_reads = match v.as_str() {
                                "on" => Some(true),
                                "off" => Some(false),
                                _ => None,
                            };
                        }
                        Cmd::ShowShard => {
                            expect_shape = "show";
                            let vals = match st.shard {
                                None => vec!["unset".to_string()],
                                Some(Some(n)) => vec![n.to_string()],
                                Some(None) => (0..nshards).map(|n| n.to_string()).collect(),
                            };
                            expect_show = Some(("shard", vals));
                        }
                        Cmd::ShowServerRole => {
                            expect_shape = "show";
                            let v = match &st.role {
                                Some(r) => r.clone(),
                                None => if st.parser.unwrap_or(pool_parser) { "auto".to_string() } else { "any".to_string() },
                            };
                            let vals = if st.role_blurred { vec!["primary".to_string(), "replica".to_string(), "auto".to_string(), "any".to_string()] } else { vec![v] };
                            expect_show = Some(("server role", vals));
                        }
                        Cmd::ShowPrimaryReads => {
                            expect_shape = "show";
                            let v = if st.primary_reads.unwrap_or(pool_primary_reads) { "on" } else { "off" };
                            expect_show = Some(("primary reads", vec![v.to_string()]));
                        }
                    }
                    match expect_shape {
                        "error" => {
                            if shape != "error" {
                                cx.v("C13", "out_of_range_accepted", "C13/set_shard_out_of_range_accepted", s.done_seq, format!("client {} step {}: {:?} names a shard that does not exist ({} shards) and was not refused (reply {:?})", c.id, s.idx, q, nshards, String::from_utf8_lossy(&types)));
                            } else {
                                cx.probe("c13_out_of_range_refused");
                            }
                        }
                        "error_or_ok_unchanged" => {
                            if shape == "ok" {
                                // accepted: we cannot know what it was taken for
                                st.shard = Some(None);
                            }
                        }
                        "ok" => {
                            if shape != "ok" {
                                cx.v("C13", "command_refused", "C13/valid_command_refused", s.done_seq, format!("client {} step {}: {:?} was answered with {:?}", c.id, s.idx, q, String::from_utf8_lossy(&types)));
                            } else if tag_of(&s.msgs) != expect_tag {
                                cx.v("C13", "command_tag", "C13/command_tag", s.done_seq, format!("client {} step {}: {:?} completed with tag {:?}, expected {:?}", c.id, s.idx, q, tag_of(&s.msgs), expect_tag));
                            }
                        }
                        _ => {
                            let (col, vals) = expect_show.unwrap();
                            match shown(&s.msgs) {
                                Some((name, v)) if shape == "show" => {
                                    cx.probe("c13_show_compared");
                                    if name != col {
                                        cx.v("C13", "show_column", "C13/show_column_name", s.done_seq, format!("client {} step {}: {:?} returned column {:?}, expected {:?}", c.id, s.idx, q, name, col));
                                    }
                                    if !vals.contains(&v) {
                                        let what = col.replace(' ', "_");
                                        cx.v("C13", "show_value", &format!("C13/show_{}_disagrees_with_preceding_sets", what), s.done_seq, format!("client {} step {}: {:?} reports {:?}; the preceding commands of this client establish {:?}", c.id, s.idx, q, v, vals));
                                    }
                                    if col == "shard" {
                                        st.shard = match v.parse::<usize>() {
                                            Ok(n) => Some(Some(n)),
                                            Err(_) => None,
                                        };
                                    }
                                }
                                _ => {
                                    cx.v("C13", "show_shape", "C13/show_reply_malformed", s.done_seq, format!("client {} step {}: {:?} was answered with {:?}", c.id, s.idx, q, String::from_utf8_lossy(&types)));
                                }
                            }
                        }
                    }
                }
            }
        }
    }
}

/// C06 — a sharding key maps to PostgreSQL's hash partition, by every routing path.
///
/// Per client, in program order: the reference selection (independent transcription of
/// PostgreSQL's hash partitioning / the SHA-1 rule) is updated by every routing command and
/// every key-carrying statement; every tagged statement that was executed must have been
/// executed on a server whose shard label equals the selection in force. A statement refused
/// because its shard is unreachable is fine; executing it elsewhere is not.
pub fn c06_shards(cx: &mut Ctx) {
    let h = cx.h;
    let nshards = cx.param_u64("nshards", 1) as usize;
    let function = cx.param_str("sharding_function");
    let default_shard = cx.param_str("default_shard");
    let plan = cx.spec.params.get("c06_plan").cloned().unwrap_or_default();
    let shard_of_host = |host: &str| -> Option<usize> { cx.spec.hosts.iter().find(|x| x.addr == host).map(|x| x.shard as usize) };
    for c in h.clients.values() {
        if c.database == "pgcat" || c.auth_result != "ok" {
            continue;
        }
        // None = nothing selected yet (default_shard applies); Some(None) = unknown
        let mut sel: Option<Option<usize>> = None;
        for s in &c.steps {
            if s.op != "send" {
                continue;
            }
            if s.tags.is_empty() {
                // a routing command?
                let q = match query_text_of(s) {
                    Some(q) => q,
                    None => continue,
                };
                let answered_ok = s.msgs.iter().map(|m| m.ty).collect::<Vec<u8>>() == vec![b'C', b'Z'];
                let answered_err = s.msgs.iter().map(|m| m.ty).collect::<Vec<u8>>() == vec![b'E', b'Z'];
                match refmodel::recognise(&q) {
                    Recognised::Command(Cmd::SetShardingKey(v)) => {
                        if let Ok(k) = v.parse::<i64>() {
                            sel = Some(Some(refmodel::partition(&function, k, nshards)));
                            cx.probe("c06_set_sharding_key");
                        }
                        if !answered_ok {
                            sel = Some(None);
                        }
                    }
                    Recognised::Command(Cmd::SetShard(v)) => match v.parse::<usize>() {
                        Ok(n) if n < nshards => {
                            sel = Some(Some(n));
                            cx.probe("c06_set_shard");
                            if !answered_ok {
                                sel = Some(None);
                            }
                        }
                        Ok(n) => {
                            cx.probe("c06_set_shard_out_of_range");
                            if !answered_err {
                                cx.v("C06", "out_of_range_accepted", "C06/set_shard_out_of_range_not_refused", s.done_seq, format!("client {} step {}: SET SHARD TO {} with {} shards was answered {:?}", c.id, s.idx, n, nshards, String::from_utf8_lossy(&s.msgs.iter().map(|m| m.ty).collect::<Vec<u8>>())));
                            }
                            // the selection in force stays (checked by the statements that follow)
                        }
                        Err(_) => sel = Some(None),
                    },
                    _ => {}
                }
                continue;
            }
            let tag = s.tags[0];
            let entry = match plan.get(tag.to_string()) {
                Some(e) => e.clone(),
                None => continue,
            };
            let path = entry.get("path").and_then(|v| v.as_str()).unwrap_or("").to_string();
            if let Some(k) = entry.get("key").and_then(|v| v.as_i64()) {
                sel = Some(Some(refmodel::partition(&function, k, nshards)));
            } else if let Some(n) = entry.get("shard").and_then(|v| v.as_u64()) {
                sel = Some(Some(n as usize));
            }
            // where did it run?
            let execs: Vec<usize> = cx.ix.exec_by_tag.get(&tag).cloned().unwrap_or_default();
            if execs.is_empty() && entry.get("named_later").is_some() {
                // only prepared under a name by this step (the pooler answers from its cache);
                // its execution by a later Bind is found through the same tag, if it got that far
                cx.probe("c06_named_statement_never_executed");
                if !matches!(s.outcome, StepOutcome::Ready(_)) {
                    break;
                }
                continue;
            }
            if entry.get("named_later").is_some() {
                cx.probe("c06_named_statement_executed_by_later_bind");
            }
            if execs.is_empty() {
                cx.probe("c06_statement_not_executed");
                let dead = cx.spec.params.get("dead_shard").and_then(|v| v.as_i64()).unwrap_or(-1);
                let target_reachable = match sel {
                    Some(Some(n)) => dead != n as i64,
                    _ => dead < 0,
                };
                if target_reachable {
                    let errs: Vec<String> = s.msgs.iter().filter(|m| m.ty == b'E').map(|m| proto::error_fields(&m.body).get(&'M').cloned().unwrap_or_default()).collect();
                    cx.v("C06", "not_routed", &format!("C06/not_executed/{}", path_class(&path)), s.done_seq, format!("client {} step {} ({}; key {:?}): the statement was executed nowhere although every server of its shard is up; step ended {:?}, errors {:?}", c.id, s.idx, path, entry.get("key").and_then(|v| v.as_i64()), s.outcome, errs));
                }
                if !matches!(s.outcome, StepOutcome::Ready(_)) {
                    // the client lost its connection with this statement: nothing more to follow
                    break;
                }
                // what the pooler selected is unknown from here on
                sel = Some(None);
                continue;
            }
            let want: Vec<usize> = match sel {
                Some(Some(n)) => vec![n],
                Some(None) => (0..nshards).collect(),
                None => match default_shard.strip_prefix("shard_").and_then(|x| x.parse::<usize>().ok()) {
                    Some(d) => vec![d],
                    None => (0..nshards).collect(),
                },
            };
            for ei in execs {
                let e = &h.stmts[ei];
                let host = &h.backend_conns[e.conn].host;
                if cx.spec.hosts.iter().any(|x| &x.addr == host && x.role == "mirror") {
                    continue;
                }
                let got = match shard_of_host(host) {
                    Some(g) => g,
                    None => continue,
                };
                cx.probe("c06_statement_checked");
                cx.probe(&format!("c06_path_{}", path));
                if nshards > 1 && want.len() == 1 {
                    cx.probe("c06_decided_among_several_shards");
                }
                if !want.contains(&got) {
                    // follow what happened, so that one misroute is reported once
                    sel = Some(None);
                    let k = entry.get("key").and_then(|v| v.as_i64());
                    let shape = entry.get("shape").and_then(|v| v.as_u64()).map(|x| format!("/shape{}", x)).unwrap_or_default();
                    cx.v("C06", "misrouted", &format!("C06/misrouted/{}{}", path_class(&path), shape), e.rec.seq, format!("client {} step {} ({}; key {:?}; {} shards, {}): executed on {} (shard {}), the selection in force is shard {:?}; statement: {}", c.id, s.idx, path, k, nshards, function, host, got, want, e.rec.sql.chars().take(120).collect::<String>()));
                }
            }
            if !matches!(s.outcome, StepOutcome::Ready(_)) {
                break;
            }
        }
    }
}

/// Cause class of a routing path: parameter width and sign do not name different causes.
fn path_class(path: &str) -> String {
    let p = path.replace("_negative", "");
    for w in ["bind_text", "bind_binary2", "bind_binary4", "bind_binary8"] {
        if let Some(rest) = p.strip_prefix(w) {
            return format!("bind{}", rest);
        }
    }
    p
}

/// C05 — writes and transactions go to the primary; explicit role choices are honoured.
///
/// Per client, in program order, a reference of the routing mode (pool defaults, SET SERVER
/// ROLE, SET PRIMARY READS) and the class each statement has by construction. Every statement
/// the pooler's own SQL parser accepts and that was executed must have been executed on a
/// server whose role label is allowed: anything but a plain read => primary (in automatic
/// mode); plain read => replica unless primary reads are on; explicit role => that role only.
pub fn c05_roles(cx: &mut Ctx) {
    use sqlparser::dialect::PostgreSqlDialect;
    use sqlparser::parser::Parser;
    let h = cx.h;
    let plan = cx.spec.params.get("c05_plan").cloned().unwrap_or_default();
    let default_role = cx.param_str("default_role");
    let pool_primary_reads = cx.param_bool("primary_reads_enabled");
    let pool_parser = cx.param_bool("query_parser_enabled");
    let role_of_host = |host: &str| -> Option<String> { cx.spec.hosts.iter().find(|x| x.addr == host).map(|x| x.role.clone()) };
    #[derive(Clone, Copy, PartialEq, Debug)]
    enum Mode {
        Default,
        Auto,
        Primary,
        Replica,
        Any,
    }
    for c in h.clients.values() {
        if c.database == "pgcat" || c.auth_result != "ok" {
            continue;
        }
        let mut mode = Mode::Default;
        let mut primary_reads: Option<bool> = None;
        // role of the server the open explicit transaction began on (None = no transaction open)
        let mut txn_role: Option<String> = None;
        for s in &c.steps {
            if s.op != "send" {
                continue;
            }
            if s.tags.is_empty() {
                if let Some(q) = query_text_of(s) {
                    let ok = s.msgs.iter().map(|m| m.ty).collect::<Vec<u8>>() == vec![b'C', b'Z'];
                    match refmodel::recognise(&q) {
                        Recognised::Command(Cmd::SetServerRole(r)) if ok => {
                            mode = match r.as_str() {
                                "primary" => Mode::Primary,
                                "replica" => Mode::Replica,
                                "any" => Mode::Any,
                                "auto" => Mode::Auto,
                                _ => Mode::Default,
                            };
                            cx.probe(&format!("c05_set_server_role_{}", r));
                        }
                        Recognised::Command(Cmd::SetPrimaryReads(v)) if ok => {
                            primary_reads = match v.as_str() {
                                "on" => Some(true),
                                "off" => Some(false),
                                _ => None,
                            };
                        }
                        _ => {}
                    }
                }
                if !matches!(s.outcome, StepOutcome::Ready(_)) {
                    break;
                }
                continue;
            }
            let tag = s.tags[0];
            let entry = match plan.get(tag.to_string()) {
                Some(e) => e.clone(),
                None => continue,
            };
            let class = entry.get("class").and_then(|v| v.as_str()).unwrap_or("").to_string();
            let in_txn = entry.get("in_txn").and_then(|v| v.as_bool()).unwrap_or(false);
            // the statement text as sent
            let sql: Option<String> = {
                let (msgs, _) = proto::split_all(&s.sent);
                msgs.iter().find(|m| m.ty == b'Q' || m.ty == b'P').and_then(|m| {
                    let mut r = proto::Reader::new(&m.body);
                    if m.ty == b'P' {
                        let _ = r.cstr();
                    }
                    r.cstr()
                })
            };
            let sql = match sql {
                Some(x) => x,
                None => continue,
            };
            // every statement text of the message must be accepted for the parser to have a verdict
            let all_texts: Vec<String> = {
                let (msgs, _) = proto::split_all(&s.sent);
                msgs.iter()
                    .filter(|m| m.ty == b'Q' || m.ty == b'P')
                    .filter_map(|m| {
                        let mut r = proto::Reader::new(&m.body);
                        if m.ty == b'P' {
                            let _ = r.cstr();
                        }
                        r.cstr()
                    })
                    .collect()
            };
            let accepted = all_texts.iter().all(|t| Parser::parse_sql(&PostgreSqlDialect {}, t).is_ok());
            if crate::world::fired_at("reloaded").map(|(q, _)| s.start_seq > q).unwrap_or(false) {
                cx.probe("c05_statement_after_reload");
            }
            // effective behaviour
            // the parser only decides roles when read/write splitting is configured
            let automatic = cx.param_bool("rw_split")
                && match mode {
                    Mode::Auto => true,
                    Mode::Default => pool_parser,
                    _ => false,
                };
            let reads_on_primary = primary_reads.unwrap_or(pool_primary_reads);
            let allowed: Vec<&str> = if let (true, Some(r)) = (in_txn, &txn_role) {
                // inside a transaction everything stays where the transaction began (C01 checks the
                // connection; here only the role)
                vec![r.as_str()]
            } else {
                match mode {
                    Mode::Primary => vec!["primary"],
                    Mode::Replica => vec!["replica"],
                    Mode::Any => vec!["primary", "replica"],
                    Mode::Auto | Mode::Default => {
                        if automatic {
                            if !accepted {
                                // the parser gives no verdict: the role of the previous statement stays
                                vec!["primary", "replica"]
                            } else if class == "plain_read" || class == "multi_reads" {
                                if reads_on_primary { vec!["primary", "replica"] } else { vec!["replica"] }
                            } else {
                                vec!["primary"]
                            }
                        } else if mode == Mode::Auto {
                            // 'auto' clears the role; without read/write splitting nothing sets one
                            vec!["primary", "replica"]
                        } else {
                            match default_role.as_str() {
                                "primary" => vec!["primary"],
                                "replica" => vec!["replica"],
                                _ => vec!["primary", "replica"],
                            }
                        }
                    }
                }
            };
            let allowed: Vec<String> = allowed.iter().map(|x| x.to_string()).collect();
            if !accepted {
                cx.probe("c05_statement_not_accepted_by_parser");
            }
            let execs: Vec<usize> = cx.ix.exec_by_tag.get(&tag).cloned().unwrap_or_default();
            if execs.is_empty() {
                cx.probe("c05_statement_not_executed");
            }
            for ei in execs {
                let e = &h.stmts[ei];
                let host = &h.backend_conns[e.conn].host;
                let got = match role_of_host(host) {
                    Some(g) if g != "mirror" => g,
                    _ => continue,
                };
                cx.probe("c05_statement_checked");
                cx.probe(&format!("c05_class_{}", class));
                if automatic && accepted && allowed.len() == 1 && !in_txn {
                    cx.probe(&format!("c05_decided_{}_{}", class, allowed[0]));
                }
                if class == "txn_start" && matches!(s.outcome, StepOutcome::Ready(b'T')) {
                    txn_role = Some(got.clone());
                }
                if !allowed.contains(&got) {
                    let how = if in_txn && txn_role.is_some() { "inside_transaction" } else if entry.get("extended").is_some() { "extended" } else { "simple" };
                    cx.v("C05", "wrong_role", &format!("C05/wrong_role/{}/mode={:?}/{}", class, mode, how), e.rec.seq, format!("client {} step {}: {} statement executed on {} ({}), allowed: {:?} (mode {:?}, parser {}, primary reads {}, default_role {}): {}", c.id, s.idx, class, host, got, allowed, mode, automatic, reads_on_primary, default_role, sql.chars().take(140).collect::<String>()));
                }
            }
            if let StepOutcome::Ready(z) = s.outcome {
                if z == b'I' {
                    txn_role = None;
                }
            } else {
                break;
            }
        }
    }
}

/// C19 — plugin verdicts are enforced before anything reaches a server.
///
/// For every tagged statement the generator labelled as referring to a listed table (in a
/// spelling PostgreSQL resolves to it), when the pooler's parser accepts the message and the
/// plugins are enabled: its tag never appears at any mock backend, in this or any later batch,
/// and the client gets the permission error. The intercepted query gets exactly the configured
/// rows and is not forwarded. With plugins disabled everything is forwarded.
pub fn c19_plugins(cx: &mut Ctx) {
    use sqlparser::dialect::PostgreSqlDialect;
    use sqlparser::parser::Parser;
    let h = cx.h;
    let plan = cx.spec.params.get("c19_plan").cloned().unwrap_or_default();
    let plugins_on_param = cx.param_bool("plugins_on");
    let reload_enables = cx.param_bool("reload_enables");
    let reloaded_seq = crate::world::fired_at("reloaded").map(|(seq, _)| seq);
    for c in h.clients.values() {
        if c.database == "pgcat" || c.auth_result != "ok" {
            continue;
        }
        for s in &c.steps {
            if s.op != "send" {
                continue;
            }
            // with the plugins switched on by a reload, only what is sent after its acknowledgement counts
            let plugins_on = if reload_enables { reloaded_seq.map(|q| s.start_seq > q).unwrap_or(false) } else { plugins_on_param };
            if reload_enables && !plugins_on {
                continue;
            }
            if reload_enables {
                cx.probe("c19_statement_after_enabling_reload");
            }
            if !matches!(s.outcome, StepOutcome::Ready(_)) {
                // the pooler closed this client (it does so for a Bind of an unknown statement):
                // nothing after this was answered
                cx.probe("c19_client_disconnected");
                break;
            }
            if s.tags.is_empty() {
                continue;
            }
            let texts: Vec<String> = {
                let (msgs, _) = proto::split_all(&s.sent);
                msgs.iter()
                    .filter(|m| m.ty == b'Q' || m.ty == b'P')
                    .filter_map(|m| {
                        let mut r = proto::Reader::new(&m.body);
                        if m.ty == b'P' {
                            let _ = r.cstr();
                        }
                        r.cstr()
                    })
                    .collect()
            };
            let accepted = texts.iter().all(|t| Parser::parse_sql(&PostgreSqlDialect {}, t).is_ok());
            let errors: Vec<String> = s.msgs.iter().filter(|m| m.ty == b'E').map(|m| proto::error_fields(&m.body).get(&'M').cloned().unwrap_or_default()).collect();
            let permission_error = errors.iter().any(|e| e.contains("permission for table"));
            let mut seen = BTreeSet::new();
            for tag in s.tags.iter().filter(|t| seen.insert(**t)) {
                let entry = match plan.get(tag.to_string()) {
                    Some(e) => e.clone(),
                    None => continue,
                };
                let at_mock: Vec<(usize, usize)> = cx.ix.units_by_tag.get(tag).cloned().unwrap_or_default();
                let where_ = entry.get("where").and_then(|v| v.as_str()).unwrap_or("").to_string();
                if entry.get("intercept").is_some() {
                    if !accepted {
                        continue;
                    }
                    if plugins_on {
                        cx.probe("c19_intercept_checked");
                        if !at_mock.is_empty() {
                            cx.v("C19", "intercept_forwarded", "C19/intercepted_query_forwarded", s.done_seq, format!("client {} step {}: the intercepted query was also sent to {}", c.id, s.idx, h.backend_conns[at_mock[0].0].host));
                        }
                        let shape: Vec<u8> = s.msgs.iter().map(|m| m.ty).collect();
                        let rows: Vec<Vec<Option<Vec<u8>>>> = s.msgs.iter().filter(|m| m.ty == b'D').map(|m| proto::data_row_cols(&m.body)).collect();
                        let cols: Vec<String> = s.msgs.iter().find(|m| m.ty == b'T').map(|m| row_description_names(&m.body)).unwrap_or_default();
                        let ok = shape == vec![b'T', b'D', b'C', b'Z'] && cols == vec!["a".to_string(), "b".to_string()] && rows == vec![vec![Some(b"db".to_vec()), Some(b"{public}".to_vec())]];
                        if !ok {
                            cx.v("C19", "intercept_reply", "C19/intercepted_query_wrong_reply", s.done_seq, format!("client {} step {}: reply to the intercepted query has message types {:?}, columns {:?}, {} row(s); errors {:?}", c.id, s.idx, String::from_utf8_lossy(&shape), cols, rows.len(), errors));
                        }
                    } else {
                        cx.probe("c19_intercept_rule_disabled");
                        if at_mock.is_empty() && matches!(s.outcome, StepOutcome::Ready(_)) && pooler_error(&s.msgs).is_none() {
                            cx.v("C19", "disabled_plugin_acted", "C19/intercept_although_disabled", s.done_seq, format!("client {} step {}: plugins are disabled but the query never reached a server", c.id, s.idx));
                        }
                    }
                    continue;
                }
                let listed = entry.get("listed").and_then(|v| v.as_bool()).unwrap_or(false);
                if !listed || entry.get("companion").is_some() {
                    continue;
                }
                if !accepted {
                    cx.probe("c19_statement_not_accepted_by_parser");
                    continue;
                }
                let spelling = entry.get("spelling").and_then(|v| v.as_str()).unwrap_or("");
                let position = entry.get("position").and_then(|v| v.as_str()).unwrap_or("");
                if plugins_on {
                    cx.probe("c19_listed_statement_checked");
                    cx.probe(&format!("c19_where_{}", where_));
                    cx.probe(&format!("c19_spelling_{}", spelling));
                    cx.probe(&format!("c19_position_{}", position));
                    if !at_mock.is_empty() {
                        let (ci, ui) = at_mock[0];
                        let u = &h.backend_conns[ci].units[ui];
                        let later = u.first_seq > s.done_seq && s.done_seq > 0;
                        cx.v(
                            "C19",
                            "denied_statement_at_server",
                            &format!("C19/listed_table_statement_reached_server/spelling={}/where={}{}{}", spelling, where_, if later { "/in_a_later_batch" } else { "" }, if position == "from_only" { "/position=from_only" } else { "" }),
                            u.first_seq,
                            format!("client {} step {}: a statement referring to a listed table ({} spelling, {} position, sent {}) reached {}: {}", c.id, s.idx, spelling, position, where_, h.backend_conns[ci].host, texts.join(" | ").chars().take(160).collect::<String>()),
                        );
                    } else if matches!(s.outcome, StepOutcome::Ready(_)) && !permission_error {
                        cx.v("C19", "no_permission_error", &format!("C19/no_permission_error/where={}", where_), s.done_seq, format!("client {} step {}: the statement was kept from the servers but the client did not get the permission error; errors {:?}", c.id, s.idx, errors));
                    }
                } else {
                    cx.probe("c19_control_plugins_disabled");
                    if permission_error {
                        cx.v("C19", "disabled_plugin_acted", "C19/denied_although_disabled", s.done_seq, format!("client {} step {}: plugins are disabled but the client got {:?}", c.id, s.idx, errors));
                    }
                }
            }
        }
    }
}

fn row_description_names(body: &[u8]) -> Vec<String> {
    let mut r = proto::Reader::new(body);
    let n = r.i16().unwrap_or(0).max(0) as usize;
    let mut out = Vec::new();
    for _ in 0..n {
        match r.cstr() {
            Some(name) => out.push(name),
            None => break,
        }
        // table oid, column attr, type oid, type len, type mod, format
        if r.bytes(18).is_none() {
            break;
        }
    }
    out
}
