//! C20 — mirroring never affects the primary path.

use super::*;

/// (a) what every client sent and received equals, byte for byte, what the mirrored (real)
/// servers received and sent: nothing a mirror says reaches a client; (b) in runs over the calm
/// network the time a request takes at the client is the server's own execution time plus a
/// small constant: the pooler never waits for a mirror; (c) every request unit a mirror
/// receives is a byte-exact copy of a whole request unit received by the server it
/// mirrors, at most once per original, and never a request of another server.
pub fn c20_mirrors(cx: &mut Ctx) {
    let h = cx.h;
    // (a)
    super::data::relay_check(cx, "C20", false);
    super::data::result_attribution(cx, "C20");
    // (a') nobody inherits a server in somebody else's transaction or with somebody else's settings
    let before = cx.out.len();
    super::data::handoff_check(cx, true);
    for v in cx.out.iter_mut().skip(before) {
        if v.property == "C02" {
            v.property = "C20".into();
            v.fingerprint = v.fingerprint.replacen("C02/", "C20/dirty_handoff/", 1);
        }
    }
    // (b)
    if cx.param_bool("calm_net") {
        for c in h.clients.values() {
            if !is_data_client(c) {
                continue;
            }
            for s in &c.steps {
                if s.op != "send" || !step_ok(s) {
                    continue;
                }
                // the server-side time of everything this step ran
                let mut server_us = 0u64;
                let mut seen = BTreeSet::new();
                for t in s.tags.iter().filter(|t| seen.insert(**t)) {
                    for ei in cx.ix.exec_by_tag.get(t).cloned().unwrap_or_default() {
                        let e = &h.stmts[ei];
                        if is_mirror_host(cx.spec, &h.backend_conns[e.conn].host) {
                            continue;
                        }
                        server_us += e.us.saturating_sub(e.start_us);
                    }
                }
                let took = s.done_us.saturating_sub(s.start_us);
                cx.probe("c20_latency_checked");
                if took > server_us + 20_000 {
                    cx.v("C20", "added_waiting", "C20/request_waited_beyond_server_time", s.done_seq, format!("client {} step {}: took {} ms at the client, the server spent {} ms on it (network latency 0, no pool contention); mirror faults: {:?}", c.id, s.idx, took / 1000, server_us / 1000, cx.spec.params.get("mirror_faults")));
                }
            }
        }
    }
    // (c)
    let mut originals: BTreeMap<String, BTreeMap<Vec<u8>, Vec<u64>>> = BTreeMap::new(); // server -> bytes -> first_seq list
    for bc in h.backend_conns.iter() {
        if bc.kind != "session" || is_mirror_host(cx.spec, &bc.host) {
            continue;
        }
        let e = originals.entry(bc.host.clone()).or_default();
        for u in &bc.units {
            e.entry(u.in_bytes.clone()).or_default().push(u.first_seq);
        }
    }
    let mut mirrored_count: BTreeMap<(String, Vec<u8>), usize> = BTreeMap::new();
    for (ci, bc) in h.backend_conns.iter().enumerate() {
        let target = match cx.spec.hosts.iter().find(|x| x.addr == bc.host && x.role == "mirror").and_then(|x| x.mirror_of.clone()) {
            Some(t) => t,
            None => continue,
        };
        if bc.kind != "session" {
            continue;
        }
        cx.probe("c20_mirror_connection");
        for (ui, u) in bc.units.iter().enumerate() {
            if u.in_bytes.is_empty() || u.in_types == vec![b'X'] {
                // nothing, or the mirror connection's own Terminate
                continue;
            }
            // the last request on a connection may be incomplete: the connection died (fault
            // script), or a slow mirror has not read the rest yet when the run ends
            if ui + 1 == bc.units.len() && u.rfq == 0 {
                let is_prefix = originals.get(&target).map(|m| m.keys().any(|k| k.starts_with(&u.in_bytes))).unwrap_or(false);
                if is_prefix {
                    cx.probe("c20_mirror_unit_cut_by_connection_loss");
                    continue;
                }
            }
            cx.probe("c20_mirror_unit_checked");
            let types = String::from_utf8_lossy(&u.in_types).to_string();
            let whole = proto::split_all(&u.in_bytes).1 == 0;
            match originals.get(&target).and_then(|m| m.get(&u.in_bytes)) {
                // (arrival order at two different hosts is the network's business, not the pooler's)
                Some(seqs) => {
                    let n = mirrored_count.entry((bc.host.clone(), u.in_bytes.clone())).or_insert(0);
                    *n += 1;
                    // every copy needs an original: also for the pooler's own requests (SET, ';',
                    // DISCARD ALL, prewarmer queries), which repeat but never more often than at the server
                    if *n > seqs.len() {
                        cx.v("C20", "mirror_duplicate", "C20/request_mirrored_more_often_than_sent", u.first_seq, format!("mirror {} conn {} received the request of {:?} {} times; the mirrored server {} received it {} time(s)", bc.host, ci, u.tags.first(), n, target, seqs.len()));
                    }
                }
                _ => {
                    // is it another server's request?
                    let elsewhere = originals.iter().find(|(srv, m)| **srv != target && m.contains_key(&u.in_bytes)).map(|(srv, _)| srv.clone());
                    let fp = if let Some(_) = elsewhere { "C20/mirror_received_request_of_another_server" } else if !whole { "C20/mirror_received_partial_request" } else { "C20/mirror_received_bytes_never_sent_to_its_server" };
                    cx.v("C20", "mirror_traffic", fp, u.first_seq, format!("mirror {} conn {} (mirrors {}) received a request unit (message types {:?}, {} bytes, tags {:?}) that is not a copy of a request received by {}{}", bc.host, ci, target, types, u.in_bytes.len(), u.tags.first(), target, elsewhere.map(|s| format!("; {} received it", s)).unwrap_or_default()));
                }
            }
        }
    }
}

fn is_mirror_host(spec: &Spec, host: &str) -> bool {
    spec.hosts.iter().any(|x| x.addr == host && x.role == "mirror")
}
