//! Routing oracles: C07 (bans and failover). C05/C06 follow below.

use super::*;

struct BanTimeline {
    /// (us, seq, banned host:port set)
    pts: Vec<(u64, u64, BTreeSet<String>)>,
    primary_banned: Vec<(u64, String)>,
}

fn ban_timeline(h: &History) -> BanTimeline {
    let mut pts: Vec<(u64, u64, BTreeSet<String>)> = Vec::new();
    let mut primary_banned = Vec::new();
    let mut add = |us: u64, seq: u64, list: &Vec<String>, pts: &mut Vec<(u64, u64, BTreeSet<String>)>| {
        let mut set = BTreeSet::new();
        for e in list {
            let parts: Vec<&str> = e.split('|').collect();
            if parts.len() >= 2 {
                set.insert(parts[0].to_string());
                if parts[1] == "primary" {
                    primary_banned.push((seq, e.clone()));
                }
            }
        }
        pts.push((us, seq, set));
    };
    // sampled views (periodic + per statement): only used to look for a banned primary
    let mut sampled: Vec<(u64, u64, BTreeSet<String>)> = Vec::new();
    for (seq, us, list) in &h.ban_samples {
        add(*us, *seq, list, &mut sampled);
    }
    // exact timeline from PgCat's own ban-list change notes
    let mut cur: BTreeSet<String> = BTreeSet::new();
    pts.push((0, 0, cur.clone()));
    for n in simcore::observe::notes() {
        match n.kind {
            "ban" => {
                cur.insert(n.detail.clone());
            }
            "unban" | "unban_expired" => {
                cur.remove(&n.detail);
            }
            "unban_all" => cur.clear(),
            _ => continue,
        }
        pts.push((n.us, n.seq, cur.clone()));
    }
    pts.sort_by_key(|p| (p.0, p.1));
    BanTimeline { pts, primary_banned }
}

impl BanTimeline {
    fn banned_at(&self, host: &str, us: u64) -> bool {
        let mut st = false;
        for (t, _, set) in &self.pts {
            if *t > us {
                break;
            }
            st = set.contains(host);
        }
        st
    }
    /// banned at `a` and in every sample in (a, b]
    fn banned_throughout(&self, host: &str, a: u64, b: u64) -> bool {
        if !self.banned_at(host, a) {
            return false;
        }
        self.pts.iter().filter(|(t, _, _)| *t > a && *t <= b).all(|(_, _, s)| s.contains(host))
    }
    /// appears in the ban list in some sample in [a, b] (or is banned at a)
    fn seen_banned(&self, host: &str, a: u64, b: u64) -> bool {
        self.banned_at(host, a) || self.pts.iter().any(|(t, _, s)| *t >= a && *t <= b && s.contains(host))
    }
    /// whatever it is at `a`: once out of the ban list in (a, b] it does not come back before b
    fn not_banned_again(&self, host: &str, a: u64, b: u64) -> bool {
        let mut was_out = !self.banned_at(host, a);
        for (t, _, s) in self.pts.iter().filter(|(t, _, _)| *t > a && *t <= b) {
            let _ = t;
            if s.contains(host) {
                if was_out {
                    return false;
                }
            } else {
                was_out = true;
            }
        }
        true
    }
    /// not banned at `a` and in no sample in (a, b]
    fn unbanned_throughout(&self, host: &str, a: u64, b: u64) -> bool {
        if self.banned_at(host, a) {
            return false;
        }
        self.pts.iter().filter(|(t, _, _)| *t > a && *t <= b).all(|(_, _, s)| !s.contains(host))
    }
}

struct Topo {
    hosts: Vec<(String, String)>, // (addr, role)
    windows: Vec<(String, String, u64, u64)>, // host, kind, from_us, to_us
    stale: Vec<(String, u64, u64)>,   // host, killed_us, pgcat_closed_us
    admin_cmds: Vec<(String, u64, u64)>, // host named in BAN/UNBAN, sent_us, done_us
}

fn topo(cx: &Ctx) -> Topo {
    let h = cx.h;
    let hosts: Vec<(String, String)> = cx.spec.hosts.iter().filter(|x| x.role != "mirror").map(|x| (x.addr.clone(), x.role.clone())).collect();
    // fault windows from the actions that actually ran (so that minimised specs stay truthful)
    let mut windows: Vec<(String, String, u64, u64)> = Vec::new();
    let mut open_mode: BTreeMap<String, (String, u64)> = BTreeMap::new();
    let mut open_beh: BTreeMap<String, (String, u64)> = BTreeMap::new();
    for (_, us, js) in &h.actions {
        let a: serde_json::Value = serde_json::from_str(js).unwrap_or_default();
        let host = a["host"].as_str().unwrap_or("").to_string();
        match a["a"].as_str().unwrap_or("") {
            "host_mode" => {
                let mode = a["mode"].as_str().unwrap_or("");
                if let Some((k, from)) = open_mode.remove(&host) {
                    windows.push((host.clone(), k, from, *us));
                }
                if mode != "up" {
                    open_mode.insert(host, (if mode == "hang" { "hang".into() } else { "down".into() }, *us));
                }
            }
            "host_behaviour" => {
                let b = a["b"].as_str().unwrap_or("");
                if let Some((k, from)) = open_beh.remove(&host) {
                    windows.push((host.clone(), k, from, *us));
                }
                if b != "normal" {
                    open_beh.insert(host, (b.split(':').next().unwrap_or("").to_string(), *us));
                }
            }
            _ => {}
        }
    }
    for (host, (k, from)) in open_mode.into_iter().chain(open_beh.into_iter()) {
        windows.push((host, k, from, u64::MAX / 4));
    }
    let mut stale = Vec::new();
    for c in &h.backend_conns {
        if c.kind == "session" && (c.close_how == "killed" || c.close_how == "silent") {
            let k = c.closed_us.unwrap_or(0);
            let p = simcore::net::world::pgcat_closed_at(c.net_conn).map(|(_, us)| us).unwrap_or(u64::MAX);
            stale.push((c.host.clone(), k, p));
        }
    }
    let mut admin_cmds = Vec::new();
    for a in h.clients.values().filter(|c| c.role == "admin") {
        for s in &a.steps {
            if s.op != "send" {
                continue;
            }
            let sql = proto::split_all(&s.sent).0.first().and_then(|m| proto::Reader::new(&m.body).cstr()).unwrap_or_default();
            let toks: Vec<&str> = sql.split_whitespace().collect();
            if toks.len() >= 2 && (toks[0].eq_ignore_ascii_case("BAN") || toks[0].eq_ignore_ascii_case("UNBAN")) {
                admin_cmds.push((toks[1].to_string(), s.start_us, s.done_us));
            }
        }
    }
    Topo { hosts, windows, stale, admin_cmds }
}

impl Topo {
    fn faulty_in(&self, host: &str, a: u64, b: u64) -> bool {
        // padded: a fault's effects (half-open connections being torn down) linger a little
        self.windows.iter().any(|(h, _, f, t)| h == host && *f <= b + 5_000 && t.saturating_add(60_000) >= a)
    }
    fn silent_in(&self, host: &str, a: u64, b: u64) -> bool {
        self.windows.iter().any(|(h, k, f, t)| h == host && k == "silent" && *f <= b + 5_000 && t.saturating_add(60_000) >= a)
    }
    fn stale_in(&self, host: &str, a: u64, b: u64) -> bool {
        self.stale.iter().any(|(h, k, p)| h == host && *k <= b && *p >= a)
    }
    fn admin_touched(&self, host: &str, a: u64, b: u64) -> bool {
        self.admin_cmds.iter().any(|(h, s, d)| host.starts_with(&format!("{}:", h)) && *s <= b + 5_000 && *d + 5_000 >= a)
    }
    fn healthy(&self, host: &str, a: u64, b: u64) -> bool {
        !self.faulty_in(host, a, b) && !self.stale_in(host, a, b)
    }
    fn replicas(&self) -> Vec<&String> {
        self.hosts.iter().filter(|(_, r)| r == "replica").map(|(h, _)| h).collect()
    }
}

fn client_role(cx: &Ctx, id: u32) -> String {
    let r = cx.spec.params.get("client_roles").and_then(|m| m.get(id.to_string())).and_then(|v| v.as_str()).unwrap_or("default").to_string();
    if r == "default" {
        cx.param_str("default_role")
    } else {
        r
    }
}

fn eligible<'a>(t: &'a Topo, role: &str) -> Vec<&'a String> {
    t.hosts.iter().filter(|(_, r)| role == "any" || role.is_empty() || r == role).map(|(h, _)| h).collect()
}

pub fn c07_bans(cx: &mut Ctx) {
    let h = cx.h;
    let bt = ban_timeline(h);
    let t = topo(cx);
    let ct = cx.param_u64("connect_timeout", 5000) * 1000;
    let hct = cx.param_u64("healthcheck_timeout", 1000) * 1000;
    let st = cx.param_u64("statement_timeout", 0) * 1000;
    // (D) the primary is never banned
    if let Some((seq, e)) = bt.primary_banned.first() {
        cx.v("C07", "primary_banned", "C07/primary_banned", *seq, format!("the ban list contains a primary: {}", e));
    }
    if bt.pts.iter().any(|(_, _, s)| !s.is_empty()) {
        cx.probe("c07_some_ban_seen");
    }
    let all_replicas_banned_at = |us: u64| -> bool {
        let reps = t.replicas();
        !reps.is_empty() && reps.iter().all(|r| bt.banned_at(r, us))
    };
    for c in h.clients.values() {
        if !is_data_client(c) || c.auth_result != "ok" {
            continue;
        }
        let role = client_role(cx, c.id);
        let elig = eligible(&t, &role);
        let mut idle_before = true;
        for s in &c.steps {
            if s.op != "send" || s.tags.is_empty() {
                continue;
            }
            let (w0, w1) = (s.start_us, s.done_us);
            let sql = String::from_utf8_lossy(&s.sent).to_string();
            let self_inflicted = sql.contains("sim_close(") || sql.contains("sim_hang(") || sql.contains("sim_stall(");
            let perr = pooler_error(&s.msgs);
            let serr = server_error(&s.msgs);
            let failed = !step_ok(s) || perr.is_some() || serr.is_some();
            // where did it run?
            let mut ran_on: Option<(String, u64)> = None;
            for tg in &s.tags {
                if let Some(v) = cx.ix.exec_by_tag.get(tg) {
                    for si in v {
                        let e = &h.stmts[*si];
                        if e.rec.seq >= s.start_seq && e.rec.seq <= s.done_seq && ran_on.as_ref().map(|(_, us)| e.us < *us).unwrap_or(true) {
                            ran_on = Some((h.backend_conns[e.conn].host.clone(), e.us));
                        }
                    }
                }
            }
            // (E) detection bound
            let bound = elig.len() as u64 * 2 * (ct + hct) + st + 2_000_000;
            if w1 - w0 > bound {
                cx.v("C07", "detection_bound_exceeded", "C07/detection_bound_exceeded", s.done_seq, format!("client {} step {} took {} ms; bound from the configured timeouts is {} ms", c.id, s.idx, (w1 - w0) / 1000, bound / 1000));
            }
            let usable = |hst: &String| -> bool { t.healthy(hst, w0.saturating_sub(20_000), w1) && (bt.unbanned_throughout(hst, w0.saturating_sub(6_000), w1) || (all_replicas_banned_at(w0.saturating_sub(6_000)) && bt.not_banned_again(hst, w0.saturating_sub(6_000), w1) && !t.replicas().iter().any(|r| t.admin_touched(r, w0.saturating_sub(6_000), w1)))) };
            if failed {
                if self_inflicted {
                    cx.probe("c07_break_mid_statement");
                    // (F) the broken replica is banned
                    if let Some((x, _)) = &ran_on {
                        let is_rep = t.hosts.iter().any(|(hh, r)| hh == x && r == "replica");
                        let at = w1 + 6_000;
                        // (if banning x made every replica banned, the next checkout clears the whole list)
                        let other_unbanned = t.replicas().iter().any(|r| *r != x && bt.unbanned_throughout(r, w0.saturating_sub(6_000), at));
                        if is_rep && other_unbanned && !bt.seen_banned(x, w0, at + 20_000) && !t.admin_touched(x, w0, at) {
                            // a ban shorter than the sampling period cannot happen (ban_time >= 1 s)
                            cx.v("C07", "broken_replica_not_banned", "C07/broken_replica_not_banned", s.done_seq, format!("replica {} closed its connection while executing client {} step {}, but is not in the ban list afterwards", x, c.id, s.idx));
                        }
                    }
                } else if idle_before {
                    let usable_hosts: Vec<&&String> = elig.iter().filter(|x| usable(x)).collect();
                    cx.probe("c07_failure_judged");
                    // A server that is hung (accepts, never answers) or whose pooled connections were
                    // killed cannot be told from a healthy one before it is used: if PgCat was entitled
                    // to pick such a server (it was not banned during the whole window), this is the
                    // "breaks while executing a client's statement" case and the failure is legitimate.
                    let a0 = w0.saturating_sub(6_000);
                    let may_have_hit_broken = elig.iter().any(|f| (t.silent_in(f, w0, w1) || t.stale_in(f, w0, w1)) && !bt.banned_throughout(f, a0, w1));
                    if may_have_hit_broken {
                        cx.probe("c07_failure_justified_break_mid_statement");
                    } else if !usable_hosts.is_empty() {
                        let class = match (&perr, &serr, &s.outcome) {
                            (Some(m), _, _) if m.contains("could not get connection") => "checkout_refused",
                            (Some(m), _, _) if m.contains("statement timeout") => "statement_timeout",
                            (Some(m), _, _) if m.contains("error receiving data") => "server_error_relayed",
                            (Some(_), _, _) => "pooler_error",
                            (None, Some(_), _) => "server_error",
                            (None, None, StepOutcome::Timeout) => "no_reply",
                            _ => "client_dropped",
                        };
                        cx.v("C07", "unjustified_failure", &format!("C07/unjustified_failure/{}", class), s.done_seq, format!("client {} (role {}) step {} failed ({:?} / {:?} / {:?}) although {:?} was up, not stale and not banned during the whole checkout window [{}..{}] ms", c.id, role, s.idx, perr, serr.as_ref().map(|e| &e.0), s.outcome, usable_hosts, w0 / 1000, w1 / 1000));
                    } else {
                        cx.probe("c07_failure_justified");
                    }
                }
            } else if let Some((x, xus)) = &ran_on {
                // wrong role is C05's business; here: bans
                if idle_before {
                    let a = w0.saturating_sub(6_000);
                    if bt.banned_throughout(x, a, *xus) && t.healthy(x, a, *xus) && !t.admin_touched(x, a, *xus) {
                        let alt: Vec<&&String> = elig.iter().filter(|y| *y != &x && t.healthy(y, a.saturating_sub(20_000), *xus) && bt.unbanned_throughout(y, a, *xus)).collect();
                        if !alt.is_empty() {
                            cx.v("C07", "banned_replica_used", "C07/banned_replica_used", s.done_seq, format!("client {} step {} ran on {} which was in the ban list from before the request was sent until the statement reached it, while {:?} was up and not banned", c.id, s.idx, x, alt));
                        }
                    }
                    if t.hosts.iter().any(|(_, _)| true) && bt.pts.iter().any(|(tt, _, set)| *tt <= w0 && !set.is_empty() && !set.contains(x)) {
                        cx.probe("c07_routed_around_ban");
                    }
                    // (H) a hung / dead candidate that cost us a timeout must be banned now
                    // The inference "it waited about a timeout, so it tried the dead one" only holds when
                    // nothing else explains the wait: no new connection to the server that finally
                    // served it was opened meanwhile, and the network alone cannot account for it.
                    let lat = w1 - w0;
                    let net_allowance = 8 * (cx.spec.net.latency_ms.1 + cx.spec.net.jitter_ms) * 1000;
                    let connected_meanwhile = h.backend_conns.iter().any(|b| &b.host == x && b.opened_us + 1000 >= w0 && b.opened_us <= w1);
                    if !connected_meanwhile && lat as f64 >= 0.9 * (hct.min(ct) as f64) + net_allowance as f64 {
                        let faulty: Vec<&String> = elig.iter().cloned().filter(|y| t.faulty_in(y, w0, w1)).collect();
                        if faulty.len() == 1 {
                            let f = faulty[0];
                            let is_rep = t.hosts.iter().any(|(hh, r)| hh == f && r == "replica");
                            let at = w1 + 6_000;
                            let other_unbanned = t.replicas().iter().any(|r| *r != f && bt.unbanned_throughout(r, w0.saturating_sub(6_000), at));
                            // the fault must have covered the whole wait (otherwise the server may have answered in the end)
                            let covered = t.windows.iter().any(|(hh, _, ff, tt)| hh == f && *ff + 5_000 <= w0 && *tt >= w1 + 10_000);
                            if is_rep && other_unbanned && covered && f != x && !bt.seen_banned(f, w0, at + 20_000) && !t.admin_touched(f, w0, at) {
                                cx.v("C07", "dead_replica_not_banned", "C07/dead_replica_not_banned_after_timeout", s.done_seq, format!("client {} step {} waited {} ms (>= a health-check/connect timeout) while only {} was faulty, was then served by {}, but {} is not in the ban list afterwards", c.id, s.idx, lat / 1000, f, x, f));
                            }
                            if covered {
                                cx.probe("c07_transparent_failover_after_timeout");
                            }
                        }
                    }
                }
            }
            idle_before = matches!(s.outcome, StepOutcome::Ready(b'I'));
        }
    }
}

/// C07 — a ban ends after ban_time / the admin duration / UNBAN.
pub fn c07_expiry(cx: &mut Ctx) {
    let h = cx.h;
    let mode = cx.param_str("expiry_mode");
    let ban_secs = cx.param_u64("ban_secs", 1);
    let r0 = "pg-s0-r0:5432";
    // when did the ban begin / end (upper bound)?
    let admin_step_done = |prefix: &str| -> Option<u64> {
        for a in h.clients.values().filter(|c| c.role == "admin") {
            for s in &a.steps {
                let sql = proto::split_all(&s.sent).0.first().and_then(|m| proto::Reader::new(&m.body).cstr()).unwrap_or_default();
                if sql.starts_with(prefix) && step_ok(s) {
                    return Some(s.done_us);
                }
            }
        }
        None
    };
    let (begin, end_upper) = match mode.as_str() {
        "admin_ban" => match admin_step_done("BAN ") {
            Some(t) => (t, t + ban_secs * 1_000_000 + 2_500_000),
            None => return,
        },
        "admin_unban" => match (admin_step_done("BAN "), admin_step_done("UNBAN ")) {
            (Some(b), Some(u)) => (b, u + 50_000),
            _ => return,
        },
        _ => (400_000, 400_000 + ban_secs * 1_000_000 + 2_500_000),
    };
    let quiet_until = match mode.as_str() {
        "admin_ban" => begin + ban_secs * 1_000_000 - 100_000,
        "admin_unban" => end_upper.saturating_sub(100_000),
        _ => begin, // the ban may have started anywhere in [50, 400] ms: no quiet claim
    };
    let mut during = 0;
    let mut after_total = 0;
    let mut after_r0 = 0;
    for e in &h.stmts {
        if e.rec.tags.is_empty() {
            continue;
        }
        let host = &h.backend_conns[e.conn].host;
        if e.us > begin + 20_000 && e.us < quiet_until {
            if host == r0 {
                during += 1;
                cx.v("C07", "banned_replica_used", "C07/banned_replica_used/expiry_family", e.rec.seq, format!("{} received a client statement at {} ms, inside its ban ({}..{} ms), while pg-s0-r1 was healthy", r0, e.us / 1000, begin / 1000, quiet_until / 1000));
            }
        }
        if e.us > end_upper {
            after_total += 1;
            if host == r0 {
                after_r0 += 1;
            }
        }
    }
    let _ = during;
    if after_total >= 60 {
        cx.probe("c07_expiry_judged");
        if after_r0 == 0 {
            cx.v("C07", "ban_never_ends", &format!("C07/ban_never_ends/{}", mode), 0, format!("{} statements ran after the ban of {} must have ended ({} ms) and none was routed to it (random load balancing over two healthy replicas)", after_total, r0, end_upper / 1000));
        } else {
            cx.probe("c07_ban_ended_and_replica_used_again");
        }
    } else {
        cx.probe("c07_expiry_insufficient_samples");
    }
}
