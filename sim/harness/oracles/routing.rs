//! Routing oracles: C05 (roles), C06 (shards), C07 (bans).
