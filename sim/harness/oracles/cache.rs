//! C08 — prepared-statement caching is invisible to clients.

use super::*;
use crate::pgsession::{PgSession, Via};

fn norm_types(sql: &str, types: &[i32]) -> Vec<i32> {
    let mut t = types.to_vec();
    let np = crate::sqlmini::max_placeholder(sql);
    while t.len() < np {
        t.push(0);
    }
    t
}

/// Normalised view of a backend message for the comparison with the direct-session reference.
fn norm_msg(m: &Msg) -> Option<(u8, Vec<u8>)> {
    match m.ty {
        b'1' | b'3' | b'S' | b'N' => None,
        b'D' => {
            let cols = proto::data_row_cols(&m.body);
            let mut b = Vec::new();
            for (i, c) in cols.iter().enumerate() {
                if i == 1 {
                    continue; // backend pid
                }
                b.extend_from_slice(c.as_deref().unwrap_or(b"\x00NULL"));
                b.push(0x1f);
            }
            Some((b'D', b))
        }
        b'E' => {
            let f = proto::error_fields(&m.body);
            Some((b'E', f.get(&'C').cloned().unwrap_or_default().into_bytes()))
        }
        t => Some((t, m.body.clone())),
    }
}

fn concat_key(sql: &str, types: &[i32]) -> String {
    format!("{}{}{}", sql, types.len(), types.iter().map(|t| t.to_string()).collect::<Vec<_>>().join(","))
}

/// Statement texts that take part in a (query ‖ num_params ‖ types) concatenation collision.
fn colliding_texts(spec: &Spec) -> std::collections::BTreeSet<String> {
    let mut groups: BTreeMap<String, std::collections::BTreeSet<(String, Vec<i32>)>> = BTreeMap::new();
    for c in &spec.clients {
        for st in &c.steps {
            if let crate::spec::Step::Send { msgs, .. } = st {
                for m in msgs {
                    if let crate::spec::FrontMsg::P { sql, types, .. } = m {
                        groups.entry(concat_key(sql, types)).or_default().insert((sql.clone(), types.clone()));
                    }
                }
            }
        }
    }
    let mut out = std::collections::BTreeSet::new();
    for g in groups.values() {
        if g.len() > 1 {
            for (sql, _) in g {
                out.insert(sql.clone());
            }
        }
    }
    out
}

/// Does the batch name more distinct statements (Parse, Bind, Describe-statement) than one
/// server connection's cache can hold at a time?
fn batch_exceeds_cache(msgs: &[Msg], cache_size: usize) -> bool {
    let mut names: BTreeSet<String> = BTreeSet::new();
    for m in msgs {
        let mut r = proto::Reader::new(&m.body);
        let name = match m.ty {
            b'P' => r.cstr().unwrap_or_default(),
            b'B' => {
                let _ = r.cstr();
                r.cstr().unwrap_or_default()
            }
            b'D' => {
                if r.u8().unwrap_or(0) != b'S' {
                    continue;
                }
                r.cstr().unwrap_or_default()
            }
            _ => continue,
        };
        if !name.is_empty() {
            names.insert(name);
        }
    }
    cache_size > 0 && names.len() > cache_size
}

pub fn c08_cache(cx: &mut Ctx) {
    let h = cx.h;
    let cache_size = cx.param_u64("cache_size", 0) as usize;
    let colliding = colliding_texts(cx.spec);
    let mut overfull_tags: BTreeSet<Tag> = BTreeSet::new();
    // ---- (1) per-client model of a direct connection: name -> (sql, types) ----
    for c in h.clients.values() {
        if !is_data_client(c) || c.auth_result != "ok" {
            continue;
        }
        let mut model: BTreeMap<String, (String, Vec<i32>)> = BTreeMap::new();
        let mut ideal = PgSession::new(0);
        for s in &c.steps {
            if s.op != "send" {
                continue;
            }
            let (msgs, _) = proto::split_all(&s.sent);
            let mut skipping = false;
            // expected (sql, types) for each Execute of this step, keyed by the step tag in bind param 1
            let mut expected: Vec<(Tag, String, Vec<i32>, String)> = Vec::new();
            let mut ideal_out: Vec<Msg> = Vec::new();
            for m in &msgs {
                ideal_out.extend(ideal.handle(m, 0, false).msgs);
                match m.ty {
                    b'S' | b'Q' => skipping = false,
                    _ if skipping => {}
                    b'P' => {
                        let mut r = proto::Reader::new(&m.body);
                        let name = r.cstr().unwrap_or_default();
                        let sql = r.cstr().unwrap_or_default();
                        let n = r.i16().unwrap_or(0);
                        let mut types = Vec::new();
                        for _ in 0..n {
                            types.push(r.i32().unwrap_or(0));
                        }
                        if sql.contains("sim_parse_error") {
                            skipping = true;
                        } else {
                            let t = norm_types(&sql, &types);
                            model.insert(name, (sql, t));
                        }
                    }
                    b'C' => {
                        let mut r = proto::Reader::new(&m.body);
                        let kind = r.u8().unwrap_or(0);
                        let name = r.cstr().unwrap_or_default();
                        if kind == b'S' {
                            model.remove(&name);
                        }
                    }
                    b'B' => {
                        let mut r = proto::Reader::new(&m.body);
                        let _portal = r.cstr().unwrap_or_default();
                        let name = r.cstr().unwrap_or_default();
                        let tags = crate::sqlmini::find_tags(&m.body);
                        match model.get(&name) {
                            Some((sql, types)) => {
                                // the step tag travels in bind parameter 1: last tag in the Bind body
                                if let Some(t) = tags.last() {
                                    if sql.contains("$1") {
                                        expected.push((*t, sql.clone(), types.clone(), name.clone()));
                                    }
                                }
                            }
                            None => skipping = true,
                        }
                    }
                    _ => {}
                }
            }
            if !step_ok(s) {
                continue;
            }
            // A batch that names more statements than a server connection's cache holds: the
            // known finding (the pooler closes the batch's own earlier statement to make room);
            // named in the fingerprint so that nothing else hides behind it.
            let overfull = batch_exceeds_cache(&msgs, cache_size);
            let cause = if overfull { "/cause=batch_names_more_statements_than_cache_holds" } else { "" };
            if overfull {
                cx.probe("c08_batch_exceeds_cache");
                for t in &s.tags {
                    overfull_tags.insert(*t);
                }
            }
            // ---- (2) what the backend actually executed for each of those Binds ----
            for (tag, sql, types, name) in &expected {
                let mut found = false;
                for e in h.stmts.iter() {
                    if e.rec.via != Via::Execute || e.rec.seq < s.start_seq || e.rec.seq > s.done_seq {
                        continue;
                    }
                    let in_params = e.rec.params.iter().flatten().any(|p| crate::sqlmini::find_tags(p).contains(tag));
                    if !in_params {
                        continue;
                    }
                    found = true;
                    cx.probe("c08_execute_checked");
                    if &e.rec.sql != sql {
                        let collide = colliding.contains(sql) && colliding.contains(&e.rec.sql);
                        let fp = format!("{}{}", if collide { "C08/wrong_statement_executed/hash_concat_collision" } else { "C08/wrong_statement_executed" }, cause);
                        cx.v("C08", "wrong_statement_executed", &fp, e.rec.seq, format!("client {} bound statement {:?} (it prepared {:?}) but backend pid {} executed {:?} as {}", c.id, name, sql, h.backend_conns[e.conn].pid, e.rec.sql, e.rec.stmt_name));
                    } else if &e.rec.types != types {
                        cx.v("C08", "wrong_parameter_types", "C08/wrong_parameter_types", e.rec.seq, format!("client {} bound statement {:?} prepared with types {:?} but backend pid {} ran it with types {:?} ({})", c.id, name, types, h.backend_conns[e.conn].pid, e.rec.types, e.rec.stmt_name));
                    }
                    if h.backend_conns[e.conn].units.len() > 1 {
                        cx.probe("c08_execute_on_reused_connection");
                    }
                }
                if !found && server_error(&s.msgs).is_none() && pooler_error(&s.msgs).is_none() {
                    cx.v("C08", "execute_not_run", "C08/execute_not_run", s.done_seq, format!("client {} step {}: Bind/Execute of {:?} ({}) completed without error but no backend executed it", c.id, s.idx, name, tag));
                }
            }
            // ---- (5) what the client saw vs. a direct session ----
            let got: Vec<(u8, Vec<u8>)> = s.msgs.iter().filter_map(norm_msg).collect();
            let want: Vec<(u8, Vec<u8>)> = ideal_out.iter().filter_map(norm_msg).collect();
            cx.probe("c08_reference_compared_steps");
            if got != want {
                let gt: String = got.iter().map(|(t, _)| *t as char).collect();
                let wt: String = want.iter().map(|(t, _)| *t as char).collect();
                let at = got.iter().zip(want.iter()).position(|(a, b)| a != b).unwrap_or(got.len().min(want.len()));
                let mut what = if gt != wt { "message_sequence".to_string() } else { format!("content_of_{}", got.get(at).map(|(t, _)| *t as char).unwrap_or('?')) };
                if msgs.iter().any(|m| (m.ty == b'P' || m.ty == b'B' || m.ty == b'D') && colliding.iter().any(|t| String::from_utf8_lossy(&m.body).contains(t.as_str()))) || model.values().any(|(sql, _)| colliding.contains(sql)) {
                    what = "hash_concat_collision".to_string();
                }
                let errs: Vec<String> = s.msgs.iter().filter(|m| m.ty == b'E').map(|m| proto::error_fields(&m.body).get(&'M').cloned().unwrap_or_default()).collect();
                cx.v("C08", "differs_from_direct_session", &format!("C08/differs_from_direct_session/{}{}", what, cause), s.done_seq, format!("client {} step {}: through the pooler the reply was [{}], a direct session answers [{}] (first difference at message {}); errors seen: {:?}", c.id, s.idx, gt, wt, at, errs));
            }
            let got1 = s.msgs.iter().filter(|m| m.ty == b'1').count();
            let want1 = ideal_out.iter().filter(|m| m.ty == b'1').count();
            let got3 = s.msgs.iter().filter(|m| m.ty == b'3').count();
            let want3 = ideal_out.iter().filter(|m| m.ty == b'3').count();
            // After an error inside the batch the pooler may still acknowledge a later Parse it
            // answers from its cache; what the property pins down there is covered by the
            // reference comparison above, not by counting acknowledgements.
            let batch_failed = s.msgs.iter().any(|m| m.ty == b'E');
            if batch_failed && (got1 != want1 || got3 != want3) {
                cx.probe("c08_acknowledgements_after_error_not_judged");
            }
            if !batch_failed && (got1 != want1 || got3 != want3) {
                cx.v("C08", "completion_count", "C08/completion_count", s.done_seq, format!("client {} step {}: {} ParseComplete / {} CloseComplete received, a direct session sends {} / {}", c.id, s.idx, got1, got3, want1, want3));
            }
        }
    }
    // ---- (3) backend statement table errors, (4) cache bound, distinct statements never share ----
    let mut text_of: BTreeMap<(usize, String), (String, Vec<i32>)> = BTreeMap::new();
    for e in &h.stmts {
        let conn = &h.backend_conns[e.conn];
        if data::is_mirror_conn(cx.spec, conn) {
            continue;
        }
        if e.rec.stmt_name.starts_with("PGCAT_") {
            if let Some(code) = &e.rec.error {
                if code == "42P05" || code == "26000" {
                    let in_overfull_batch = conn.units.iter().any(|u| u.first_seq <= e.rec.seq && e.rec.seq <= u.last_seq && u.tags.iter().any(|t| overfull_tags.contains(t)));
                    let cause = if in_overfull_batch { "/cause=batch_names_more_statements_than_cache_holds" } else { "" };
                    cx.v("C08", "backend_statement_table_error", &format!("C08/backend_statement_table_error/{}{}", code, cause), e.rec.seq, format!("backend pid {} answered {} for pooler statement {} ({:?})", conn.pid, code, e.rec.stmt_name, e.rec.via));
                }
            }
            if e.rec.via == Via::Parse && e.rec.error.is_none() {
                text_of.insert((e.conn, e.rec.stmt_name.clone()), (e.rec.sql.clone(), e.rec.types.clone()));
            }
        }
        if cache_size > 0 {
            let named = e.rec.snap.prepared.iter().filter(|n| n.starts_with("PGCAT_")).count();
            if named > cache_size {
                cx.v("C08", "server_cache_overflow", "C08/server_cache_overflow", e.rec.seq, format!("backend pid {} holds {} pooler statements, prepared_statements_cache_size is {}", conn.pid, named, cache_size));
            }
            if named == cache_size {
                cx.probe("c08_server_cache_full");
            }
        }
    }
    // evictions happened?
    for conn in h.backend_conns.iter() {
        for u in &conn.units {
            let msgs = unit_msgs(u);
            if msgs.iter().any(|m| m.ty == b'C' && m.body.len() > 2 && m.body[1..].starts_with(b"PGCAT_")) {
                cx.probe("c08_eviction_close_sent");
            }
        }
    }
    // one pooler name never stands for two different statements across the run
    let mut by_name: BTreeMap<String, (String, Vec<i32>)> = BTreeMap::new();
    for ((_, name), (sql, types)) in &text_of {
        match by_name.get(name) {
            Some((s2, t2)) if s2 != sql || t2 != types => {
                cx.v("C08", "statement_shared", "C08/pooler_name_reused_for_different_statement", 0, format!("{} stands for {:?}{:?} and for {:?}{:?}", name, s2, t2, sql, types));
            }
            _ => {
                by_name.insert(name.clone(), (sql.clone(), types.clone()));
            }
        }
    }
}
