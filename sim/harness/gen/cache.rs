//! Family for C08 (prepared-statement caching is invisible) and the cache-on part of C03.

use super::*;

/// One client's view of its named statements, used to generate only programs that are valid
/// on a direct connection (no Bind of an unknown name, no Parse of an existing name).
struct Names {
    live: Vec<(String, usize)>, // (name, number of parameters)
}

fn stmt_sql(p: &mut Prog, shared_text: Option<&str>, nparams: usize, extra: &str) -> String {
    // parameter 1 always carries the step tag (attribution); further parameters are values
    let head = match shared_text {
        Some(t) => format!("SELECT '{}'", t),
        None => format!("SELECT '{}'", p.tag()),
    };
    let mut s = head;
    for i in 1..=nparams {
        s.push_str(&format!(", ${}", i));
    }
    s.push_str(extra);
    s
}

fn bind_exec(p: &mut Prog, name: &str, nparams: usize, max_rows: i32) -> Vec<FrontMsg> {
    let tag = p.tag();
    let mut params = vec![Some(tag)];
    for i in 1..nparams {
        params.push(Some(format!("v{}", i)));
    }
    vec![FrontMsg::B { portal: "".into(), stmt: name.into(), fmt: vec![], params, rfmt: vec![], binary_hex: false }, FrontMsg::E { portal: "".into(), max: max_rows }]
}

pub fn cache_world(rng: &mut Rng, thorough: bool, adversarial: bool) -> (Spec, Cfg) {
    let pool_size = rng.range(1, 3) as u32;
    let replicas = rng.range(0, 1) as usize;
    let mut cfg = single_pool("transaction", pool_size, replicas);
    cfg.set("connect_timeout", 60000);
    cfg.pools[0].cache_size = *rng.pick(&[1usize, 2, 2, 3, 8]);
    if rng.chance(0.3) {
        cfg.set("healthcheck_delay", 0);
    }
    if rng.chance(0.5) {
        cfg.set("server_round_robin", "false");
    }
    if rng.chance(0.3) {
        cfg.pools[0].query_parser_enabled = true;
    }
    let nclients = rng.range(2, if thorough { 4 } else { 3 }) as u32;
    let share_text = rng.chance(0.35) || adversarial;
    let two_statement_batches = rng.chance(0.5);
    let sql_prepare = rng.chance(0.3);
    let shared_texts = ["shared-alpha", "shared-beta"];
    let mut clients = Vec::new();
    for i in 0..nclients {
        let id = i + 1;
        let mut p = Prog::new(id);
        let mut names = Names { live: Vec::new() };
        let nsteps = rng.range(3, if thorough { 14 } else { 9 });
        for _ in 0..nsteps {
            p.new_txn();
            let pick = rng.below(10);
            let name_pool = ["s1", "s2", "s3"];
            match pick {
                0..=2 => {
                    // prepare a new named statement (Parse [+Describe] + Sync), or Parse+Bind+Execute in one batch
                    let free: Vec<&str> = name_pool.iter().cloned().filter(|n| !names.live.iter().any(|(l, _)| l == n)).collect();
                    if free.is_empty() {
                        continue;
                    }
                    let name = rng.pick(&free).to_string();
                    let np = rng.range(1, 2) as usize;
                    let (sql, types): (String, Vec<i32>) = if adversarial && rng.chance(0.6) {
                        // two statements whose (query ‖ num_params ‖ types) concatenations coincide:
                        //   Q ‖ "2" ‖ "20,25"   and   (Q ‖ "2") ‖ "2" ‖ "0,25"
                        let base = format!("SELECT '{}', $1, $2 -- ", shared_texts[0]);
                        if rng.chance(0.5) {
                            (base, vec![20, 25])
                        } else {
                            (format!("{}2", base), vec![0, 25])
                        }
                    } else if share_text {
                        let t = rng.pick(&shared_texts).to_string();
                        let types = if rng.chance(0.5) { vec![] } else { (0..np).map(|_| *rng.pick(&[25i32, 23, 0])).collect() };
                        (stmt_sql(&mut p, Some(&t), np, ""), types)
                    } else {
                        let extra = if rng.chance(0.3) { format!(", sim_rows({})", rng.range(0, 4)) } else { String::new() };
                        (stmt_sql(&mut p, None, np, &extra), if rng.chance(0.5) { vec![] } else { vec![25; np] })
                    };
                    let np = crate::sqlmini::max_placeholder(&sql);
                    let mut msgs = vec![FrontMsg::P { name: name.clone(), sql, types }];
                    if rng.chance(0.4) {
                        msgs.push(FrontMsg::D { kind: "S".into(), name: name.clone() });
                    }
                    let mut closed_in_batch = false;
                    if rng.chance(0.5) {
                        msgs.extend(bind_exec(&mut p, &name, np, 0));
                        if rng.chance(0.3) {
                            // prepare, use and close in one batch (drivers' one-shot statements)
                            msgs.push(FrontMsg::C { kind: "S".into(), name: name.clone() });
                            closed_in_batch = true;
                        }
                    }
                    msgs.push(FrontMsg::S);
                    p.send(msgs);
                    if !closed_in_batch {
                        names.live.push((name, np));
                    }
                }
                3..=6 => {
                    // use a statement prepared earlier (possibly on another server connection by now)
                    if names.live.is_empty() {
                        continue;
                    }
                    let (name, np) = rng.pick(&names.live).clone();
                    let mut msgs = Vec::new();
                    if rng.chance(0.3) {
                        msgs.push(FrontMsg::D { kind: "S".into(), name: name.clone() });
                    }
                    let max = if rng.chance(0.2) { 1 } else { 0 };
                    msgs.extend(bind_exec(&mut p, &name, np, max));
                    if rng.chance(0.3) {
                        msgs.push(FrontMsg::D { kind: "P".into(), name: "".into() });
                    }
                    if two_statement_batches && rng.chance(0.4) {
                        // a second statement in the same batch: another one prepared earlier, or
                        // one prepared right here (making room for it on the server connection
                        // must not cost the batch its first statement)
                        let others: Vec<(String, usize)> = names.live.iter().filter(|(n, _)| *n != name).cloned().collect();
                        let free: Vec<&str> = name_pool.iter().cloned().filter(|n| !names.live.iter().any(|(l, _)| l == n)).collect();
                        if !others.is_empty() && (free.is_empty() || rng.chance(0.5)) {
                            let (n2, np2) = rng.pick(&others).clone();
                            msgs.extend(bind_exec(&mut p, &n2, np2, 0));
                        } else if !free.is_empty() {
                            let n2 = rng.pick(&free).to_string();
                            let np2 = rng.range(1, 2) as usize;
                            let sql = stmt_sql(&mut p, None, np2, "");
                            msgs.push(FrontMsg::P { name: n2.clone(), sql, types: vec![] });
                            msgs.extend(bind_exec(&mut p, &n2, np2, 0));
                            names.live.push((n2, np2));
                        }
                    }
                    msgs.push(FrontMsg::S);
                    p.send(msgs);
                }
                7 => {
                    // close a statement (alone, or followed by a re-Parse under the same name)
                    if names.live.is_empty() {
                        continue;
                    }
                    let i = rng.below(names.live.len() as u64) as usize;
                    let (name, _) = names.live.remove(i);
                    let mut msgs = vec![FrontMsg::C { kind: "S".into(), name: name.clone() }];
                    if rng.chance(0.6) {
                        let np = rng.range(1, 2) as usize;
                        let sql = stmt_sql(&mut p, None, np, "");
                        msgs.push(FrontMsg::P { name: name.clone(), sql, types: vec![] });
                        if rng.chance(0.5) {
                            msgs.extend(bind_exec(&mut p, &name, np, 0));
                        }
                        if rng.chance(0.2) {
                            // ... and close it again right away
                            msgs.push(FrontMsg::C { kind: "S".into(), name: name.clone() });
                        } else {
                            names.live.push((name, np));
                        }
                    }
                    msgs.push(FrontMsg::S);
                    p.send(msgs);
                }
                8 => {
                    // a statement that fails at Parse on the server; the name stays free
                    let free: Vec<&str> = name_pool.iter().cloned().filter(|n| !names.live.iter().any(|(l, _)| l == n)).collect();
                    if free.is_empty() {
                        continue;
                    }
                    let name = rng.pick(&free).to_string();
                    let t = p.tag();
                    let mut msgs = vec![FrontMsg::P { name: name.clone(), sql: format!("SELECT '{}', $1, sim_parse_error()", t), types: vec![] }];
                    if rng.chance(0.5) {
                        // a second Parse in the same batch: the server skips it (error state until
                        // Sync), so neither this client nor anybody sharing its text has it prepared
                        let free2: Vec<&str> = free.iter().cloned().filter(|n| *n != name).collect();
                        if let Some(n2) = free2.first() {
                            let st: &str = *rng.pick(&shared_texts);
                            let sql2 = if share_text { stmt_sql(&mut p, Some(st), 1, "") } else { stmt_sql(&mut p, None, 1, "") };
                            msgs.push(FrontMsg::P { name: n2.to_string(), sql: sql2, types: vec![] });
                        }
                    }
                    msgs.push(FrontMsg::S);
                    p.send(msgs);
                }
                _ => {
                    // unnamed statement or a simple query in between
                    if sql_prepare && rng.chance(0.4) {
                        // PREPARE through SQL: the pooler wipes the server connection's statements
                        // when it takes the connection back; everybody's cached statements must
                        // be put back before their next use
                        let t = p.tag();
                        p.simple(format!("PREPARE plan_{}_{} AS SELECT '{}'", id, p.t, t));
                    } else if rng.chance(0.5) {
                        let nr = rng.range(0, 3);
                        let m = super::base::ext_batch(&mut p, rng, "", "", nr, 0, 0, true, false);
                        p.send(m);
                    } else {
                        let s = p.select(1, 0, "");
                        p.simple(s);
                    }
                }
            }
            if rng.chance(0.3) {
                p.think(rng.range(1, 20));
            }
        }
        p.steps.push(Step::Terminate);
        clients.push(client(id, "app", "db", "apppw", rng.range(0, 15), p.steps));
    }
    let net = if rng.chance(0.4) { net_calm() } else { net_swarm(rng) };
    let mut spec = Spec { config_toml: cfg.render(), hosts: cfg.hosts(), net, clients, end: EndSpec { deadline_ms: 900_000, calm_ms: 100 }, ..Default::default() };
    spec.params = params_from(&cfg);
    spec.params.insert("cache_on".into(), serde_json::json!(true));
    spec.params.insert("cache_size".into(), serde_json::json!(cfg.pools[0].cache_size));
    spec.params.insert("two_statement_batches".into(), serde_json::json!(two_statement_batches));
    spec.params.insert("sql_prepare".into(), serde_json::json!(sql_prepare));
    (spec, cfg)
}

pub fn c08(rng: &mut Rng, thorough: bool, idx: u64) -> Spec {
    let adversarial = idx % 5 == 4;
    let (mut spec, _cfg) = cache_world(rng, thorough, adversarial);
    spec.family = if adversarial { "stmt_cache/near_colliding_statements".into() } else { "stmt_cache".into() };
    spec.oracles = vec!["c08_cache".into(), "c03_relay".into(), "liveness".into()];
    spec.params.insert("liveness_property".into(), serde_json::json!("C08"));
    spec
}

pub fn c03_cache(rng: &mut Rng, thorough: bool) -> Spec {
    let (mut spec, _cfg) = cache_world(rng, thorough, false);
    spec.family = "relay/stmt_cache_on".into();
    spec.oracles = vec!["c03_relay".into(), "liveness".into()];
    spec
}
