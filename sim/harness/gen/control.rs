//! (families added below)
