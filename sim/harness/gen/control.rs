//! Control-plane families: C16 (PAUSE/RESUME), C17 (shutdown), C14 (reload), C18 (statistics).

use super::*;

fn q(sql: String, txn: u32) -> Step {
    Step::Send { msgs: vec![FrontMsg::Q { sql }], rfq: None, cut: None, abort: false, txn }
}

/// A worker program: `n` transactions of mixed shapes with think times.
pub fn worker_prog(p: &mut Prog, rng: &mut Rng, n: u64, think: (u64, u64), allow_ext: bool) {
    for _ in 0..n {
        p.new_txn();
        match rng.below(4) {
            0 => {
                let t = p.tag();
                p.simple(format!("BEGIN /* {} */", t));
                let s = p.select(1, 0, "");
                p.simple(s);
                if rng.chance(0.5) {
                    p.think(rng.range(1, 40));
                    let s = p.select(2, 0, "");
                    p.simple(s);
                }
                let t = p.tag();
                p.simple(format!("COMMIT /* {} */", t));
            }
            1 if allow_ext => {
                let m = super::base::ext_batch(p, rng, "", "", 1, 0, 0, true, false);
                p.send(m);
            }
            2 if allow_ext && rng.chance(0.4) => {
                // two requests written at once: two simple queries, or two Sync-terminated batches
                if rng.chance(0.5) {
                    let a = p.select(1, 0, "");
                    p.new_txn();
                    let b = p.select(1, 0, "");
                    p.send(vec![FrontMsg::Q { sql: a }, FrontMsg::Q { sql: b }]);
                } else {
                    let mut m = super::base::ext_batch(p, rng, "", "", 1, 0, 0, false, false);
                    p.new_txn();
                    m.extend(super::base::ext_batch(p, rng, "", "", 1, 0, 0, false, false));
                    p.send(m);
                }
            }
            _ => {
                let s = p.select(1, 0, "");
                p.simple(s);
            }
        }
        p.think(rng.range(think.0, think.1));
    }
}

pub fn c16(rng: &mut Rng, thorough: bool, _idx: u64) -> Spec {
    let two_pools = rng.chance(0.4);
    let session = rng.chance(0.25);
    let pool_size = rng.range(1, 3) as u32;
    let mut cfg = single_pool(if session { "session" } else { "transaction" }, pool_size, rng.range(0, 1) as usize);
    cfg.set("connect_timeout", 60000);
    if two_pools {
        let mut p2 = PoolDef::simple("db2", "transaction", vec![UserDef::new("app", "apppw", pool_size)], vec![ShardDef { id: "0".into(), database: "db2".into(), servers: vec![("pg2-s0-p".into(), 5432, "primary".into())], mirrors: vec![] }]);
        p2.lb = "random".into();
        cfg.pools.push(p2);
    }
    if rng.chance(0.3) {
        cfg.set("healthcheck_delay", 0);
    }
    let cycles = rng.range(1, if thorough { 4 } else { 2 });
    // admin: PAUSE / RESUME cycles
    let mut admin_steps = Vec::new();
    let mut reload_actions: Vec<ActionSpec> = Vec::new();
    let mut reloads = 0u64;
    let mut pause_scopes: Vec<String> = Vec::new();
    let mut t_prev = rng.range(5, 60);
    for cyc in 0..cycles {
        let scope = if two_pools && rng.chance(0.5) { rng.pick(&["db,app", "db2,app"]).to_string() } else { String::new() };
        admin_steps.push(Step::Think { ms: t_prev });
        admin_steps.push(q(format!("PAUSE {}", scope).trim().to_string(), 0));
        admin_steps.push(Step::Emit { ev: format!("paused{}", cyc) });
        if rng.chance(0.3) {
            // a reload of a file in which something that does not concern the pools changed:
            // the paused pool stays paused, and those it holds are still released by RESUME
            let mut changed = cfg.clone();
            changed.set("ban_time", 61 + cyc);
            reload_actions.push(ActionSpec { at: When::After { ev: format!("paused{}", cyc), delay_ms: 1 }, act: Action::SetFile { kind: "data".into(), content: changed.render() } });
            reload_actions.push(ActionSpec { at: When::After { ev: format!("paused{}", cyc), delay_ms: 2 }, act: Action::Emit { ev: format!("file{}", cyc) } });
            admin_steps.push(Step::Think { ms: rng.range(0, 100) });
            admin_steps.push(Step::Wait { ev: format!("file{}", cyc) });
            admin_steps.push(q("RELOAD".into(), 0));
            reloads += 1;
        }
        admin_steps.push(Step::Think { ms: rng.range(0, 200) });
        // sometimes RESUME right after a specific client's message was delivered
        if rng.chance(0.3) {
            admin_steps.push(Step::Wait { ev: format!("arrive{}.sent", cyc) });
        }
        admin_steps.push(q(format!("RESUME {}", scope).trim().to_string(), 0));
        admin_steps.push(Step::Emit { ev: format!("resumed{}", cyc) });
        pause_scopes.push(scope);
        t_prev = rng.range(1, 80);
    }
    admin_steps.push(Step::Terminate);
    let mut clients = Vec::new();
    let mut admin = admin_client(500, "main", When::AtMs { ms: 0 }, &[]);
    admin.steps = admin_steps;
    clients.push(admin);
    // workers running throughout
    let nworkers = rng.range(1, if thorough { 5 } else { 3 }) as u32;
    for i in 0..nworkers {
        let id = i + 1;
        let db = if two_pools && rng.chance(0.4) { "db2" } else { "db" };
        let mut p = Prog::new(id);
        let nn = rng.range(2, 8);
        worker_prog(&mut p, rng, nn, (1, 60), true);
        p.steps.push(Step::Terminate);
        clients.push(client(id, "app", db, "apppw", rng.range(0, 30), p.steps));
    }
    // clients that arrive (or send their next transaction) only after the PAUSE was acknowledged
    let mut next_id = 20;
    for cyc in 0..cycles {
        let narrive = rng.range(1, 3);
        for k in 0..narrive {
            let id = next_id;
            next_id += 1;
            let db = if two_pools && rng.chance(0.4) { "db2" } else { "db" };
            let mut p = Prog::new(id);
            let connected_before = rng.chance(0.5);
            if connected_before {
                // already connected and idle when the pause begins
                p.new_txn();
                let s = p.select(1, 0, "");
                p.simple(s);
                p.steps.push(Step::Wait { ev: format!("paused{}", cyc) });
            }
            p.think(rng.range(0, 20));
            if connected_before && rng.chance(0.3) {
                // the first messages of a batch went out before the pause (the pooler only
                // buffers them); its Sync arrives during the pause
                p.steps.pop();
                p.steps.pop();
                p.new_txn();
                let mut m = super::base::ext_batch(&mut p, rng, "", "", 1, 0, 0, false, false);
                while !matches!(m.last(), Some(FrontMsg::E { .. })) {
                    m.pop();
                }
                let t = p.t;
                p.steps.push(Step::Send { msgs: m, rfq: Some(0), cut: None, abort: false, txn: t });
                p.steps.push(Step::Wait { ev: format!("paused{}", cyc) });
                p.think(rng.range(0, 20));
                p.send(vec![FrontMsg::S]);
            }
            let nn = rng.range(1, 3);
            worker_prog(&mut p, rng, nn, (1, 20), true);
            p.steps.push(Step::Terminate);
            let mut c = client(id, "app", db, "apppw", rng.range(0, 20), p.steps);
            if !connected_before {
                c.start = When::After { ev: format!("paused{}", cyc), delay_ms: rng.range(0, 30) };
            }
            if k == 0 {
                // lets the admin time its RESUME right after this client's first message went out
                let first_send = c.steps.iter().position(|s| matches!(s, Step::Send { .. } )).unwrap_or(0);
                let first_after_wait = c.steps.iter().enumerate().filter(|(i, s)| matches!(s, Step::Send { .. }) && (!connected_before || *i > 1)).map(|(i, _)| i).next().unwrap_or(first_send);
                c.steps.insert(first_after_wait + 1, Step::Emit { ev: format!("arrive{}.sent", cyc) });
            }
            clients.push(c);
        }
        // make sure the event the admin may wait for always fires eventually
    }
    let mut actions = reload_actions;
    for cyc in 0..cycles {
        actions.push(ActionSpec { at: When::After { ev: format!("paused{}", cyc), delay_ms: 400 }, act: Action::Emit { ev: format!("arrive{}.sent", cyc) } });
    }
    let net = if rng.chance(0.4) { net_calm() } else { net_swarm(rng) };
    let mut spec = Spec { config_toml: cfg.render(), hosts: cfg.hosts(), net, clients, actions, end: EndSpec { deadline_ms: 2_000_000, calm_ms: 100 }, ..Default::default() };
    spec.params = params_from(&cfg);
    spec.params.insert("pause_scopes".into(), serde_json::json!(pause_scopes));
    spec.params.insert("reloads_while_paused".into(), serde_json::json!(reloads));
    // random subset of the yield sites around wait_paused / checkout
    for site in ["pool.wait_paused.between", "pool.wait_paused.before_wait", "client.after_wait_paused", "client.before_get"] {
        if rng.chance(0.5) {
            spec.yield_sites.push((site.to_string(), rng.range(1, 4) as u32));
        }
    }
    spec.family = format!("pause_resume/{}", if session { "session" } else { "transaction" });
    spec.oracles = vec!["c16_pause".into(), "liveness".into()];
    spec
}

/// C17: populations of idle, mid-transaction (shorter and longer than shutdown_timeout), admin
/// and newly arriving clients; SIGINT, repeated SIGINT, admin SHUTDOWN, SIGTERM at PRNG times.
pub fn c17(rng: &mut Rng, thorough: bool, _idx: u64) -> Spec {
    let session = rng.chance(0.2);
    let timeout = *rng.pick(&[300u64, 1000, 3000]);
    let mut cfg = single_pool(if session { "session" } else { "transaction" }, 8, rng.range(0, 1) as usize);
    cfg.set("shutdown_timeout", timeout);
    cfg.set("connect_timeout", 60000);
    let how = *rng.pick(&["INT", "INT", "INT2", "SHUTDOWN", "TERM"]);
    let t_sig = rng.range(40, 200);
    let mut clients = Vec::new();
    let mut actions = Vec::new();
    match how {
        "INT" | "INT2" | "TERM" => {
            actions.push(ActionSpec { at: When::AtMs { ms: t_sig }, act: Action::Signal { sig: if how == "TERM" { "TERM".into() } else { "INT".into() } } });
            actions.push(ActionSpec { at: When::AtMs { ms: t_sig }, act: Action::Emit { ev: "sig".into() } });
            if how == "INT2" {
                actions.push(ActionSpec { at: When::AtMs { ms: t_sig + rng.range(10, timeout.saturating_sub(50).max(11)) }, act: Action::Signal { sig: "INT".into() } });
            }
        }
        _ => {
            let mut a = admin_client(400, "main", When::AtMs { ms: 0 }, &[]);
            a.steps = vec![Step::Think { ms: t_sig }, q("SHUTDOWN".into(), 0), Step::Emit { ev: "sig".into() }, Step::Hold { until: None, max_ms: 600_000 }];
            clients.push(a);
        }
    }
    let mut id = 0u32;
    let mut kinds = serde_json::Map::new();
    // idle clients (connected, between transactions)
    for _ in 0..rng.range(0, 3) {
        id += 1;
        let mut p = Prog::new(id);
        p.new_txn();
        let s = p.select(1, 0, "");
        p.simple(s);
        p.steps.push(Step::Hold { until: None, max_ms: 600_000 });
        kinds.insert(id.to_string(), serde_json::json!("idle"));
        clients.push(client(id, "app", "db", "apppw", rng.range(0, 30), p.steps));
    }
    // idle clients that never ran anything
    for _ in 0..rng.range(0, 1) {
        id += 1;
        kinds.insert(id.to_string(), serde_json::json!("idle_fresh"));
        clients.push(client(id, "app", "db", "apppw", rng.range(0, 30), vec![Step::Hold { until: None, max_ms: 600_000 }]));
    }
    // mid-transaction clients: the transaction straddles the signal
    for _ in 0..rng.range(1, if thorough { 4 } else { 3 }) {
        id += 1;
        let long = rng.chance(0.3);
        let mut p = Prog::new(id);
        p.new_txn();
        let t = p.tag();
        p.simple(format!("BEGIN /* {} */", t));
        let s = p.select(1, 0, "");
        p.simple(s);
        let start = rng.range(0, t_sig.saturating_sub(15));
        // the transaction ends at about t_sig + d
        let d = if long { timeout + rng.range(200, 800) } else { rng.range(5, timeout.saturating_sub(120).max(6)) };
        p.think((t_sig - start) + d);
        let s = p.select(2, 0, "");
        p.simple(s);
        let t = p.tag();
        p.simple(format!("COMMIT /* {} */", t));
        if rng.chance(0.5) {
            // then stays idle: must be told to go away
            p.steps.push(Step::Hold { until: None, max_ms: 600_000 });
        } else {
            p.steps.push(Step::Terminate);
        }
        kinds.insert(id.to_string(), serde_json::json!(if long { "mid_txn_long" } else { "mid_txn_short" }));
        clients.push(client(id, "app", "db", "apppw", start, p.steps));
    }
    // clients caught between the messages of an extended-protocol batch: Parse/Bind/Execute are
    // out (PgCat only buffers them), Sync follows after the signal
    for _ in 0..rng.range(0, 1) {
        id += 1;
        let mut p = Prog::new(id);
        p.new_txn();
        let s = p.select(1, 0, "");
        p.simple(s);
        p.new_txn();
        let mut m = super::base::ext_batch(&mut p, rng, "", "", 1, 0, 0, false, false);
        m.pop();
        let t = p.t;
        p.steps.push(Step::Send { msgs: m, rfq: Some(0), cut: None, abort: false, txn: t });
        p.steps.push(Step::Wait { ev: "sig".into() });
        p.think(rng.range(1, 80));
        p.send(vec![FrontMsg::S]);
        p.steps.push(Step::Hold { until: None, max_ms: 600_000 });
        kinds.insert(id.to_string(), serde_json::json!("mid_batch"));
        clients.push(client(id, "app", "db", "apppw", rng.range(0, t_sig.saturating_sub(30)), p.steps));
    }
    // clients that came and went before the signal, some of them abruptly, some after an
    // SSLRequest that PgCat declines (the libpq sslmode=prefer dance)
    for _ in 0..rng.range(0, 3) {
        id += 1;
        let mut p = Prog::new(id);
        p.new_txn();
        let s = p.select(1, 0, "");
        p.simple(s);
        if rng.chance(0.5) {
            // a CancelRequest connection or two, long before the shutdown (drivers send these
            // on their statement timeouts): they are no clients to wait for, or to forget
            for _ in 0..rng.range(1, 3) {
                p.steps.push(Step::Cancel { target: id, key: rng.pick(&["target", "random", "wrongsecret"]).to_string() });
            }
        }
        if rng.chance(0.6) {
            p.steps.push(Step::Drop { abort: rng.chance(0.5) });
        } else {
            p.steps.push(Step::Terminate);
        }
        kinds.insert(id.to_string(), serde_json::json!("early_leaver"));
        let mut c = client(id, "app", "db", "apppw", rng.range(0, t_sig.saturating_sub(30)), p.steps);
        c.ssl_probe = rng.chance(0.5);
        clients.push(c);
    }
    for c in clients.iter_mut() {
        if c.role == "worker" && rng.chance(0.3) {
            c.ssl_probe = true;
        }
    }
    // arrivals after the signal
    for _ in 0..rng.range(1, 2) {
        id += 1;
        let mut p = Prog::new(id);
        p.new_txn();
        let s = p.select(1, 0, "");
        p.simple(s);
        p.steps.push(Step::Terminate);
        let mut c = client(id, "app", "db", "apppw", 0, p.steps);
        c.start = When::After { ev: "sig".into(), delay_ms: rng.range(1, 100) };
        c.ssl_probe = rng.chance(0.4);
        kinds.insert(id.to_string(), serde_json::json!("arrival"));
        clients.push(c);
    }
    if rng.chance(0.6) {
        let mut a = admin_client(450, "main", When::After { ev: "sig".into(), delay_ms: rng.range(1, 40) }, &["SHOW POOLS", "SHOW CLIENTS"]);
        a.role = "admin".into();
        kinds.insert("450".to_string(), serde_json::json!("admin_arrival"));
        clients.push(a);
    }
    let net = if rng.chance(0.5) { net_calm() } else { NetSpec { latency_ms: (0, *rng.pick(&[0u64, 1, 3])), ..net_swarm(rng) } };
    let mut spec = Spec { config_toml: cfg.render(), hosts: cfg.hosts(), net, clients, actions, end: EndSpec { deadline_ms: 700_000, calm_ms: 50 }, ..Default::default() };
    spec.params = params_from(&cfg);
    spec.params.insert("client_kinds".into(), serde_json::Value::Object(kinds));
    spec.params.insert("shutdown_timeout".into(), serde_json::json!(timeout));
    spec.params.insert("how".into(), serde_json::json!(how));
    spec.family = format!("shutdown/{}/{}", how, if session { "session" } else { "transaction" });
    spec.oracles = vec!["c17_shutdown".into()];
    spec
}

fn pool_on(name: &str, hosts: &[&str], pool_size: u32, mode: &str) -> PoolDef {
    let mut servers = Vec::new();
    for (i, h) in hosts.iter().enumerate() {
        servers.push((h.to_string(), 5432u16, if i == 0 { "primary".to_string() } else { "replica".to_string() }));
    }
    PoolDef::simple(name, mode, vec![UserDef::new("app", "apppw", pool_size)], vec![ShardDef { id: "0".into(), database: name.into(), servers, mirrors: vec![] }])
}

/// C14: old/new configuration pairs, reload by admin RELOAD, SIGHUP or autoreload, clients
/// idle, mid-transaction and arriving around the reload.
pub fn c14(rng: &mut Rng, thorough: bool, idx: u64) -> Spec {
    let with_db2 = true;
    let mut old = Cfg::new();
    old.set("connect_timeout", 3000);
    old.pools.push(pool_on("db", &["pg-db-p", "pg-db-r"][..rng.range(1, 2) as usize], 3, "transaction"));
    if with_db2 {
        let mut p2 = pool_on("db2", &["pg-db2-p"], 2, "transaction");
        if rng.chance(0.5) {
            // a second shard (clients that do not pick a shard are served by the default shard 0)
            p2.shards.push(ShardDef { id: "1".into(), database: "db2".into(), servers: vec![("pg-db2-s1".into(), 5432, "primary".into())], mirrors: vec![] });
        }
        old.pools.push(p2);
    }
    // a third of the runs: the statement cache is on in pool db and its workers execute, after the
    // reload, a statement they prepared under a name before it
    let stmt_cache = rng.chance(0.3);
    if stmt_cache {
        old.pools[0].cache_size = 8;
    }
    let trigger = *rng.pick(&["RELOAD", "RELOAD", "HUP", "autoreload"]);
    if trigger == "autoreload" {
        old.set("autoreload", 200);
    }
    let variant = if idx % 2 == 0 {
        *rng.pick(&["unchanged", "add_pool", "remove_pool", "change_servers", "change_general", "add_pool_server_down", "swap_roles", "change_user_pool_size", "change_pool_mode", "change_user_password"])
    } else {
        *rng.pick(&["syntax", "semantic_role", "semantic_role_capitalised", "semantic_two_primaries", "semantic_min_pool", "semantic_default_shard", "semantic_shard_id", "semantic_dup_server", "missing", "readerror", "truncated"])
    };
    // (a pool whose server is down while it is being built makes the reload itself take seconds;
    // overlapping it with timer- or signal-driven reloads only blurs what "acknowledged" means)
    let trigger = if variant == "add_pool_server_down" { "RELOAD" } else { trigger };
    if variant == "add_pool_server_down" {
        old.general.remove("autoreload");
    }
    if variant == "swap_roles" {
        // a promotion written the usual way: the roles of the two servers edited in place
        old.pools[0] = pool_on("db", &["pg-db-p", "pg-db-r"], 3, "transaction");
    }
    let mut new = old.clone();
    let mut new_text: Option<String> = None;
    let mut file_kind = "data";
    let valid = idx % 2 == 0;
    match variant {
        "unchanged" => {}
        "add_pool" | "add_pool_server_down" => {
            let mut p = pool_on("db3", &["pg-db3-p"], 2, "transaction");
            if variant == "add_pool_server_down" {
                p.users[0].min_pool_size = Some(1);
            }
            new.pools.push(p);
        }
        "remove_pool" => {
            new.pools.retain(|p| p.name != "db2");
        }
        "change_servers" => {
            for p in new.pools.iter_mut() {
                if p.name == "db2" {
                    p.shards[0].servers = vec![("pg-db2-alt".into(), 5432, "primary".into())];
                }
            }
        }
        "change_general" => {
            new.set("ban_time", 77);
        }
        "change_user_pool_size" => {
            for p in new.pools.iter_mut().filter(|p| p.name == "db2") {
                p.users[0].pool_size = 3;
            }
        }
        "change_pool_mode" => {
            for p in new.pools.iter_mut().filter(|p| p.name == "db2") {
                p.mode = "session".into();
            }
        }
        "change_user_password" => {
            // the client-side password only: the servers keep theirs
            for p in new.pools.iter_mut().filter(|p| p.name == "db2") {
                p.users[0].server_username = Some("app".into());
                p.users[0].server_password = Some("apppw".into());
                p.users[0].password = Some("newpw".into());
            }
        }
        "swap_roles" => {
            new.pools[0].shards[0].servers[0].2 = "replica".into();
            new.pools[0].shards[0].servers[1].2 = "primary".into();
        }
        "semantic_role_capitalised" => {
            // (if a pooler takes this spelling as valid it must then also serve it; PgCat refuses it)
            new.pools[0].default_role = rng.pick(&["Primary", "ANY", "Replica"]).to_string();
        }
        "syntax" => new_text = Some(format!("{}\n[pools.db\nthis is = not toml ===\n", new.render())),
        "semantic_role" => {
            new.pools[0].default_role = "bogus".into();
        }
        "semantic_two_primaries" => {
            new.pools[0].shards[0].servers = vec![("pg-db-p".into(), 5432, "primary".into()), ("pg-db-r".into(), 5432, "primary".into())];
        }
        "semantic_min_pool" => {
            new.pools[0].users[0].min_pool_size = Some(99);
        }
        "semantic_default_shard" => {
            // one past the last shard (the boundary), or further out
            let n = new.pools[1].shards.len() as u64;
            new.pools[1].extra.push(format!("default_shard = \"shard_{}\"", n + rng.below(3)));
        }
        "semantic_shard_id" => {
            new.pools[1].shards[0].id = "first".into();
        }
        "semantic_dup_server" => {
            let s0 = new.pools[0].shards[0].servers[0].clone();
            new.pools[0].shards[0].servers.push((s0.0.clone(), s0.1, "primary".into()));
            new.pools[0].shards[0].servers[0].2 = "replica".into();
            new.pools[0].shards[0].servers.push((s0.0, s0.1, "primary".into()));
        }
        "missing" => file_kind = "missing",
        "readerror" => file_kind = "readerror",
        "truncated" => {
            let mut changed = new.clone();
            changed.pools.push(pool_on("db3", &["pg-db3-p"], 2, "transaction"));
            let t = changed.render();
            let cut = rng.range(10, (t.find("[pools.").unwrap_or(60) as u64).saturating_sub(2).max(11)) as usize;
            new_text = Some(t[..cut].to_string());
        }
        _ => unreachable!(),
    }
    let new_content = new_text.unwrap_or_else(|| new.render());
    // hosts: every server that appears in either configuration
    let mut hosts = old.hosts();
    for h in new.hosts() {
        if !hosts.iter().any(|x| x.addr == h.addr) {
            hosts.push(h);
        }
    }
    if !hosts.iter().any(|h| h.addr == "pg-db3-p:5432") {
        let mut extra = Cfg::new();
        extra.pools.push(pool_on("db3", &["pg-db3-p"], 2, "transaction"));
        hosts.extend(extra.hosts());
    }
    let double_reload = trigger == "RELOAD" && variant != "add_pool_server_down" && rng.chance(0.25);
    let t_file = rng.range(60, 250);
    let t_reload = t_file + rng.range(5, 60);
    let mut actions = vec![ActionSpec { at: When::AtMs { ms: t_file }, act: Action::SetFile { kind: file_kind.into(), content: new_content.clone() } }];
    let mut clients = Vec::new();
    // admin: look, reload, look again
    let mut admin_steps = vec![Step::Think { ms: t_reload }, q("SHOW DATABASES".into(), 0), q("SHOW CONFIG".into(), 0)];
    match trigger {
        "RELOAD" => {
            admin_steps.push(Step::Emit { ev: "reload_begin".into() });
            if double_reload {
                // the operator's RELOAD and a SIGHUP at the same moment: two reloads in flight
                actions.push(ActionSpec { at: When::After { ev: "reload_begin".into(), delay_ms: 0 }, act: Action::Signal { sig: "HUP".into() } });
            }
            admin_steps.push(q("RELOAD".into(), 0));
            if double_reload {
                admin_steps.push(Step::Think { ms: 150 });
            }
            admin_steps.push(Step::Emit { ev: "reloaded".into() });
        }
        "HUP" => {
            actions.push(ActionSpec { at: When::AtMs { ms: t_reload }, act: Action::Emit { ev: "reload_begin".into() } });
            actions.push(ActionSpec { at: When::AtMs { ms: t_reload }, act: Action::Signal { sig: "HUP".into() } });
            actions.push(ActionSpec { at: When::AtMs { ms: t_reload + 150 }, act: Action::Emit { ev: "reloaded".into() } });
            admin_steps.push(Step::Wait { ev: "reloaded".into() });
        }
        _ => {
            actions.push(ActionSpec { at: When::AtMs { ms: t_file }, act: Action::Emit { ev: "reload_begin".into() } });
            actions.push(ActionSpec { at: When::AtMs { ms: t_file + 200 + 150 }, act: Action::Emit { ev: "reloaded".into() } });
            admin_steps.push(Step::Wait { ev: "reloaded".into() });
        }
    }
    let _ = double_reload;
    let mut admin2_needed = false;
    if trigger == "RELOAD" && !valid {
        // PgCat drops the admin connection when the reload fails: look again from a new one
        admin2_needed = true;
    } else {
        admin_steps.push(q("SHOW DATABASES".into(), 0));
        admin_steps.push(q("SHOW CONFIG".into(), 0));
    }
    admin_steps.push(Step::Terminate);
    let mut admin = admin_client(500, "main", When::AtMs { ms: 0 }, &[]);
    admin.steps = admin_steps;
    clients.push(admin);
    if admin2_needed {
        let a2 = admin_client(501, "main", When::After { ev: "c500.done".into(), delay_ms: 20 }, &["SHOW DATABASES", "SHOW CONFIG"]);
        clients.push(a2);
    }
    if variant == "add_pool_server_down" {
        // the new pool's server is down at reload time, comes back, and the admin reloads again
        actions.push(ActionSpec { at: When::AtMs { ms: 1 }, act: Action::HostMode { host: "pg-db3-p:5432".into(), mode: "refuse".into() } });
        actions.push(ActionSpec { at: When::After { ev: "reloaded".into(), delay_ms: 300 }, act: Action::HostMode { host: "pg-db3-p:5432".into(), mode: "up".into() } });
        let a3 = admin_client(502, "main", When::After { ev: "reloaded".into(), delay_ms: 500 }, &["RELOAD", "SHOW DATABASES"]);
        clients.push(a3);
        actions.push(ActionSpec { at: When::After { ev: "c502.done".into(), delay_ms: 10 }, act: Action::Emit { ev: "reloaded_again".into() } });
    }
    // workers on the unchanged pool, running across the reload (one long transaction straddles it)
    let mut id = 0;
    for k in 0..rng.range(1, if thorough { 4 } else { 3 }) {
        id += 1;
        let mut p = Prog::new(id);
        if stmt_cache {
            // a statement prepared under a name before the reload ...
            p.new_txn();
            let m = { let mut m = super::base::ext_batch(&mut p, rng, "w1", "", 1, 0, 0, false, false); m.truncate(1); m.push(FrontMsg::S); m };
            p.send(m);
        }
        if k == 0 {
            p.new_txn();
            let t = p.tag();
            p.simple(format!("BEGIN /* {} */", t));
            let s = p.select(1, 0, "");
            p.simple(s);
            p.think(t_reload + 200);
            let s = p.select(2, 0, "");
            p.simple(s);
            let t = p.tag();
            p.simple(format!("COMMIT /* {} */", t));
        }
        let nn = rng.range(4, 12);
        worker_prog(&mut p, rng, nn, (10, 80), true);
        if stmt_cache {
            // ... and executed after it
            p.steps.push(Step::Wait { ev: "reloaded".into() });
            for _ in 0..rng.range(1, 2) {
                p.new_txn();
                let tag = p.tag();
                p.send(vec![FrontMsg::B { portal: "".into(), stmt: "w1".into(), fmt: vec![], params: vec![Some(tag)], rfmt: vec![], binary_hex: false }, FrontMsg::E { portal: "".into(), max: 0 }, FrontMsg::S]);
            }
        }
        p.steps.push(Step::Terminate);
        clients.push(client(id, "app", "db", "apppw", rng.range(0, 40), p.steps));
    }
    // workers on db2 (changed / removed / unchanged depending on the variant)
    for k in 0..rng.range(1, 2) {
        id += 1;
        let mut p = Prog::new(id);
        if k == 0 {
            p.new_txn();
            let t = p.tag();
            p.simple(format!("BEGIN /* {} */", t));
            let s = p.select(1, 0, "");
            p.simple(s);
            p.think(t_reload + 150);
            let t = p.tag();
            p.simple(format!("COMMIT /* {} */", t));
        }
        let nn = rng.range(4, 10);
        worker_prog(&mut p, rng, nn, (10, 80), false);
        p.steps.push(Step::Terminate);
        clients.push(client(id, "app", "db2", "apppw", rng.range(0, 40), p.steps));
    }
    // a client of the pool that only exists in the new configuration
    id += 1;
    let mut p = Prog::new(id);
    for _ in 0..3 {
        p.new_txn();
        let s = p.select(1, 0, "");
        p.simple(s);
        p.think(20);
    }
    p.steps.push(Step::Terminate);
    let mut c3 = client(id, "app", "db3", "apppw", 0, p.steps);
    c3.start = When::After { ev: if variant == "add_pool_server_down" { "reloaded_again".into() } else { "reloaded".into() }, delay_ms: rng.range(5, 50) };
    c3.role = "probe".into();
    let db3_client = id;
    clients.push(c3);
    // and one that connects to db2 only after the reload
    id += 1;
    let mut p = Prog::new(id);
    for _ in 0..2 {
        p.new_txn();
        let s = p.select(1, 0, "");
        p.simple(s);
    }
    p.steps.push(Step::Terminate);
    let mut c4 = client(id, "app", "db2", if variant == "change_user_password" { "newpw" } else { "apppw" }, 0, p.steps);
    c4.start = When::After { ev: "reloaded".into(), delay_ms: rng.range(5, 50) };
    c4.role = "probe".into();
    let db2_late_client = id;
    clients.push(c4);
    let mut old_password_client = 0;
    if variant == "change_user_password" {
        // the password of the old file is no longer good for a new login
        id += 1;
        let mut p = Prog::new(id);
        p.new_txn();
        let s = p.select(1, 0, "");
        p.simple(s);
        p.steps.push(Step::Terminate);
        let mut c = client(id, "app", "db2", "apppw", 0, p.steps);
        c.start = When::After { ev: "reloaded".into(), delay_ms: rng.range(5, 50) };
        c.role = "probe".into();
        old_password_client = id;
        clients.push(c);
    }
    // and one that asks pool db for each role after the reload
    id += 1;
    let mut p = Prog::new(id);
    for role in ["primary", "replica", "primary"] {
        p.steps.push(q(format!("SET SERVER ROLE TO '{}'", role), 0));
        for _ in 0..2 {
            p.new_txn();
            let s = p.select(1, 0, "");
            p.simple(s);
        }
    }
    p.steps.push(Step::Terminate);
    let mut c5 = client(id, "app", "db", "apppw", 0, p.steps);
    c5.start = When::After { ev: "reloaded".into(), delay_ms: rng.range(5, 50) };
    c5.role = "probe".into();
    let db_role_client = id;
    if old.pools[0].shards[0].servers.len() == 2 {
        clients.push(c5);
    }

    let net = if rng.chance(0.5) { net_calm() } else { NetSpec { latency_ms: (0, *rng.pick(&[0u64, 1, 2])), ..net_swarm(rng) } };
    let mut spec = Spec { config_toml: old.render(), hosts, net, clients, actions, end: EndSpec { deadline_ms: 900_000, calm_ms: 100 }, ..Default::default() };
    spec.params = params_from(&old);
    // pool parameters of the new configuration too (db3)
    if let Some(serde_json::Value::Object(m)) = spec.params.get_mut("pools") {
        if let serde_json::Value::Object(n) = new.pool_params() {
            for (k, v) in n {
                m.entry(k).or_insert(v);
            }
        }
        m.entry("db3/app".to_string()).or_insert(serde_json::json!({"mode": "transaction", "size": 2, "cache": 0, "shards": 1, "statement_timeout": 0}));
    }
    spec.params.insert("variant".into(), serde_json::json!(variant));
    spec.params.insert("valid".into(), serde_json::json!(valid));
    spec.params.insert("trigger".into(), serde_json::json!(trigger));
    spec.params.insert("db3_client".into(), serde_json::json!(db3_client));
    spec.params.insert("db2_late_client".into(), serde_json::json!(db2_late_client));
    spec.params.insert("old_password_client".into(), serde_json::json!(old_password_client));
    spec.params.insert("db_role_client".into(), serde_json::json!(db_role_client));
    if rng.chance(0.5) {
        spec.yield_sites.push(("pool.from_config.before_store".into(), 3));
    }
    spec.family = format!("reload/{}/{}", trigger, variant);
    spec.oracles = vec!["c14_reload".into(), "liveness".into()];
    spec
}

/// C18: histories of logins, failed logins, transactions, checkout failures and clean or abrupt
/// exits, with barriers at which everything is quiescent and the admin reads the console.
pub fn c18(rng: &mut Rng, thorough: bool, idx: u64) -> Spec {
    let exhaustion = idx % 3 == 2;
    let session = !exhaustion && rng.chance(0.2);
    // (session mode: one server per connected client, so that nobody queues for a whole connect_timeout)
    let pool_size = if exhaustion { 1 } else if session { 10 } else { rng.range(2, 4) as u32 };
    // a third of the ordinary runs: a replica that the operator bans while everybody is busy
    let with_ban = !exhaustion && !session && rng.chance(0.3);
    let mut cfg = single_pool(if session { "session" } else { "transaction" }, pool_size, if with_ban { 1 } else { 0 });
    cfg.set("connect_timeout", if exhaustion { 100 } else { 60000 });
    if exhaustion {
        cfg.pools[0].extra.push("checkout_failure_limit = 2".into());
    }
    if rng.chance(0.5) {
        cfg.set("server_round_robin", *rng.pick(&["true", "false"]));
    }
    let mut clients = Vec::new();
    let mut roles = serde_json::Map::new();
    let mut quiet_events: Vec<String> = Vec::new();
    let mut id = 0u32;
    let mk = |id: u32, steps: Vec<Step>, start: u64| -> ClientSpec {
        let mut c = client(id, "app", "db", "apppw", start, steps);
        c.startup_params = vec![("application_name".into(), format!("cl{}", id))];
        c
    };
    // holders: inside a transaction at the sample
    let nhold = if exhaustion { 1 } else { rng.range(0, (pool_size as u64 - 1).min(2)) };
    let _ = session;
    for _ in 0..nhold {
        id += 1;
        let mut p = Prog::new(id);
        p.new_txn();
        let t = p.tag();
        p.simple(format!("BEGIN /* {} */", t));
        let s = p.select(1, 0, "");
        p.simple(s);
        p.steps.push(Step::Emit { ev: format!("c{}.quiet", id) });
        p.steps.push(Step::Wait { ev: "sample1".into() });
        let t = p.tag();
        p.simple(format!("COMMIT /* {} */", t));
        match rng.below(3) {
            0 => p.steps.push(Step::Terminate),
            1 => p.steps.push(Step::Drop { abort: false }),
            _ => {
                // leave while holding a server again
                p.new_txn();
                let t = p.tag();
                p.simple(format!("BEGIN /* {} */", t));
                p.steps.push(Step::Drop { abort: rng.chance(0.5) });
            }
        }
        quiet_events.push(format!("c{}.quiet", id));
        roles.insert(id.to_string(), serde_json::json!("holder"));
        clients.push(mk(id, p.steps, rng.range(0, 20)));
    }
    if nhold >= 1 && !exhaustion && rng.chance(0.5) {
        // somebody who used the server connection before the first holder took it, and who
        // leaves while the holder is inside its transaction: the holder's server stays "active"
        id += 1;
        let mut p = Prog::new(id);
        p.new_txn();
        let s = p.select(1, 0, "");
        p.simple(s);
        p.steps.push(Step::Wait { ev: "c1.quiet".into() });
        p.think(rng.range(0, 10));
        p.steps.push(match rng.below(3) { 0 => Step::Terminate, 1 => Step::Drop { abort: false }, _ => Step::Drop { abort: true } });
        clients[0].start = When::After { ev: format!("c{}.s0.done", id), delay_ms: rng.range(0, 5) };
        quiet_events.push(format!("c{}.done", id));
        roles.insert(id.to_string(), serde_json::json!("leaver"));
        clients.push(mk(id, p.steps, rng.range(0, 5)));
    }
    // workers: several transactions before and after the sample
    let nwork = if exhaustion { 0 } else { rng.range(1, if thorough { 4 } else { 3 }) };
    for _ in 0..nwork {
        id += 1;
        let mut p = Prog::new(id);
        let nn = rng.range(1, 6);
        worker_prog(&mut p, rng, nn, (1, 30), true);
        if rng.chance(0.3) {
            // CancelRequest connections: they are no clients, and leave no trace in the lists
            for _ in 0..rng.range(1, 2) {
                p.steps.push(Step::Cancel { target: id, key: rng.pick(&["target", "random", "wrongsecret"]).to_string() });
            }
            p.think(rng.range(1, 20));
        }
        p.steps.push(Step::Emit { ev: format!("c{}.quiet", id) });
        p.steps.push(Step::Wait { ev: "sample1".into() });
        let nn = rng.range(0, 4);
        worker_prog(&mut p, rng, nn, (1, 30), true);
        match rng.below(4) {
            0 => p.steps.push(Step::Terminate),
            1 => p.steps.push(Step::Drop { abort: rng.chance(0.5) }),
            2 => {
                p.new_txn();
                let t = p.tag();
                p.simple(format!("BEGIN /* {} */", t));
                let s = p.select(1, 0, "");
                p.simple(s);
                p.steps.push(Step::Drop { abort: rng.chance(0.5) });
            }
            _ => {
                p.new_txn();
                let t = p.tag();
                p.simple(format!("BEGIN /* {} */", t));
                p.steps.push(Step::Terminate);
            }
        }
        quiet_events.push(format!("c{}.quiet", id));
        roles.insert(id.to_string(), serde_json::json!("worker"));
        clients.push(mk(id, p.steps, rng.range(0, 40)));
    }
    // idlers: connected, never ran anything
    for _ in 0..rng.range(0, 2) {
        id += 1;
        let steps = vec![Step::Emit { ev: format!("c{}.quiet", id) }, Step::Wait { ev: "sample1".into() }, if rng.chance(0.5) { Step::Terminate } else { Step::Drop { abort: false } }];
        quiet_events.push(format!("c{}.quiet", id));
        roles.insert(id.to_string(), serde_json::json!("idler"));
        clients.push(mk(id, steps, rng.range(0, 40)));
    }
    // failed logins
    for _ in 0..rng.range(0, 2) {
        id += 1;
        let mut c = mk(id, vec![Step::Terminate], rng.range(0, 40));
        c.auth = "wrong".into();
        roles.insert(id.to_string(), serde_json::json!("failed_login"));
        clients.push(c);
    }
    if exhaustion {
        // a client that runs into the checkout failure limit while the only server is held
        id += 1;
        let mut p = Prog::new(id);
        for _ in 0..3 {
            p.new_txn();
            let s = p.select(1, 0, "");
            p.simple(s);
        }
        p.steps.push(Step::Terminate);
        let mut c = mk(id, p.steps, 0);
        c.start = When::After { ev: "c1.quiet".into(), delay_ms: 5 };
        roles.insert(id.to_string(), serde_json::json!("kicked"));
        clients.push(c);
        quiet_events.push(format!("c{}.done", id));
    }
    // the sampling admin
    let mut a = admin_client(500, "main", When::AtMs { ms: 0 }, &[]);
    let mut steps = Vec::new();
    if with_ban {
        steps.push(Step::Think { ms: rng.range(5, 60) });
        steps.push(q("BAN pg-s0-r0 60".into(), 0));
    }
    for ev in &quiet_events {
        steps.push(Step::Wait { ev: ev.clone() });
    }
    steps.push(Step::Think { ms: 30 });
    for cmd in ["SHOW CLIENTS", "SHOW SERVERS", "SHOW POOLS", "SHOW LISTS", "SHOW STATS"] {
        steps.push(q(cmd.into(), 1));
    }
    steps.push(Step::Emit { ev: "sample1".into() });
    for c in &clients {
        steps.push(Step::Wait { ev: format!("c{}.done", c.id) });
    }
    steps.push(Step::Think { ms: 100 });
    for cmd in ["SHOW CLIENTS", "SHOW SERVERS", "SHOW POOLS", "SHOW LISTS", "SHOW STATS"] {
        steps.push(q(cmd.into(), 2));
    }
    steps.push(Step::Terminate);
    a.steps = steps;
    a.startup_params = vec![("application_name".into(), "sampler".into())];
    clients.push(a);
    let net = if rng.chance(0.5) { net_calm() } else { NetSpec { latency_ms: (0, *rng.pick(&[0u64, 1, 2])), ..net_swarm(rng) } };
    let mut spec = Spec { config_toml: cfg.render(), hosts: cfg.hosts(), net, clients, end: EndSpec { deadline_ms: 900_000, calm_ms: 50 }, ..Default::default() };
    spec.params = params_from(&cfg);
    spec.params.insert("c18_roles".into(), serde_json::Value::Object(roles));
    spec.family = format!("stats/{}{}{}", if session { "session" } else { "transaction" }, if exhaustion { "/checkout_failure_limit" } else { "" }, if with_ban { "/replica_banned" } else { "" });
    spec.oracles = vec!["c18_stats".into(), "liveness".into()];
    spec
}
