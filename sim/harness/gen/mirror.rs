//! C20: mirroring never affects the primary path.

use super::*;

/// One shard (primary, optional replica), 0-3 mirrors attached to the servers; no pool contention;
/// per-mirror fault scripts (down from the start, refuse + connection kills, connect hang, black
/// hole after accept, slow replies, rejects startup, replies with errors, connection kills at
/// PRNG times, inside requests); a quarter of the runs have no mirrors (control), a quarter
/// healthy ones. Workers run tagged statements with known server-side durations.
pub fn c20(rng: &mut Rng, thorough: bool, idx: u64) -> Spec {
    let nclients = rng.range(1, 3) as u32;
    let session = rng.chance(0.2);
    let replica = rng.chance(0.4);
    let mode = idx % 4; // 0 = no mirrors, 1 = healthy mirrors, 2,3 = faulty mirrors
    let mut cfg = single_pool(if session { "session" } else { "transaction" }, nclients + 1, if replica { 1 } else { 0 });
    cfg.set("connect_timeout", *rng.pick(&[300u64, 1000, 5000]));
    cfg.set("healthcheck_delay", *rng.pick(&[0u64, 30000]));
    cfg.set("ban_time", 60);
    cfg.pools[0].lb = rng.pick(&["random", "loc"]).to_string();
    // a third of the runs: the prewarmer plugin runs a query on every new server connection
    if rng.chance(0.33) {
        cfg.pools[0].query_parser_enabled = true;
        cfg.plugins = Some("\n[plugins]\n\n[plugins.prewarmer]\nenabled = true\nqueries = [\"SELECT 'warm-up'\"]\n".into());
    }
    let mut mirrors: Vec<(String, usize)> = Vec::new();
    if mode != 0 {
        let n_on_primary = rng.range(1, 2);
        for i in 0..n_on_primary {
            mirrors.push((format!("pg-m{}", i), 0));
        }
        if replica && rng.chance(0.6) {
            mirrors.push(("pg-mr".into(), 1));
        }
    }
    cfg.pools[0].shards[0].mirrors = mirrors.iter().map(|(h, t)| (h.clone(), 5432u16, *t)).collect();
    let calm = rng.chance(0.7);
    let mut clients = Vec::new();
    for id in 1..=nclients {
        let mut p = Prog::new(id);
        let n = rng.range(3, if thorough { 16 } else { 9 });
        for _ in 0..n {
            p.new_txn();
            let sleep = if rng.chance(0.5) { rng.range(5, 90) } else { 0 };
            let extra = if sleep > 0 { format!(", sim_sleep({})", sleep) } else { String::new() };
            match rng.below(5) {
                0 => {
                    let t = p.tag();
                    p.simple(format!("BEGIN /* {} */", t));
                    let s = p.select(rng.range(1, 4), 0, &extra);
                    p.simple(s);
                    let t = p.tag();
                    p.simple(format!("COMMIT /* {} */", t));
                }
                1 => {
                    let t = p.tag();
                    p.send(vec![
                        FrontMsg::P { name: String::new(), sql: format!("SELECT '{}'{}", t, extra), types: vec![] },
                        FrontMsg::B { portal: String::new(), stmt: String::new(), fmt: vec![], params: vec![], rfmt: vec![], binary_hex: false },
                        FrontMsg::E { portal: String::new(), max: 0 },
                        FrontMsg::S,
                    ]);
                }
                2 => {
                    let s = p.select(rng.range(1, 50), rng.range(0, 400), &extra);
                    p.simple(s);
                }
                _ => {
                    let s = p.select(1, 0, &extra);
                    p.simple(s);
                }
            }
            p.think(rng.range(0, 120));
        }
        p.steps.push(Step::Terminate);
        let mut c = client(id, "app", "db", "apppw", rng.range(0, 60), p.steps);
        c.patience_ms = 30_000;
        clients.push(c);
    }
    // a client that is thrown out by the pooler while it holds a server inside a transaction
    // (Bind of a statement it never prepared, with the statement cache on): the server must not be
    // handed to anybody else in that state, mirrors or not
    if rng.chance(0.5) {
        cfg.pools[0].cache_size = 8;
        let id = 50;
        let mut p = Prog::new(id);
        p.new_txn();
        let t = p.tag();
        p.simple(format!("BEGIN /* {} */", t));
        let t = p.tag();
        p.simple(format!("SET statement_timeout TO 31337 /* {} */", t));
        let tag = p.tag();
        let tt = p.t;
        p.steps.push(Step::Send { msgs: vec![FrontMsg::B { portal: "".into(), stmt: "never_prepared".into(), fmt: vec![], params: vec![Some(tag)], rfmt: vec![], binary_hex: false }, FrontMsg::E { portal: "".into(), max: 0 }, FrontMsg::S], rfq: None, cut: None, abort: false, txn: tt });
        p.steps.push(Step::Hold { until: None, max_ms: 200 });
        p.steps.push(Step::Drop { abort: false });
        let mut c = client(id, "app", "db", "apppw", rng.range(0, 300), p.steps);
        c.role = "attacker".into();
        c.patience_ms = 3000;
        clients.push(c);
    }
    let mut actions = Vec::new();
    let mut fault_kinds = Vec::new();
    if mode >= 2 {
        for (h, _) in &mirrors {
            let host = format!("{}:5432", h);
            let kind = *rng.pick(&["down_from_start", "down_later", "connect_hang", "black_hole", "slow", "reject_startup", "errors", "kills", "healthy"]);
            fault_kinds.push(kind.to_string());
            let t = rng.range(0, 600);
            match kind {
                "down_from_start" => actions.push(ActionSpec { at: When::AtMs { ms: 0 }, act: Action::HostMode { host: host.clone(), mode: "refuse".into() } }),
                "down_later" => {
                    actions.push(ActionSpec { at: When::AtMs { ms: t }, act: Action::HostMode { host: host.clone(), mode: "refuse".into() } });
                    actions.push(ActionSpec { at: When::AtMs { ms: t }, act: Action::KillConns { host: host.clone(), how: rng.pick(&["fin", "rst"]).to_string() } });
                    if rng.chance(0.5) {
                        actions.push(ActionSpec { at: When::AtMs { ms: t + rng.range(100, 800) }, act: Action::HostMode { host: host.clone(), mode: "up".into() } });
                    }
                }
                "connect_hang" => actions.push(ActionSpec { at: When::AtMs { ms: if rng.chance(0.5) { 0 } else { t } }, act: Action::HostMode { host: host.clone(), mode: "hang".into() } }),
                "black_hole" => actions.push(ActionSpec { at: When::AtMs { ms: if rng.chance(0.5) { 0 } else { t } }, act: Action::HostBehaviour { host: host.clone(), b: "silent".into() } }),
                "slow" => actions.push(ActionSpec { at: When::AtMs { ms: 0 }, act: Action::HostBehaviour { host: host.clone(), b: format!("slow:{}", rng.range(50, 2000)) } }),
                "reject_startup" => actions.push(ActionSpec { at: When::AtMs { ms: 0 }, act: Action::HostBehaviour { host: host.clone(), b: "reject_startup".into() } }),
                "errors" => actions.push(ActionSpec { at: When::AtMs { ms: 0 }, act: Action::HostBehaviour { host: host.clone(), b: "errors".into() } }),
                "kills" => {
                    for _ in 0..rng.range(1, 4) {
                        actions.push(ActionSpec { at: When::AtMs { ms: rng.range(10, 900) }, act: Action::KillConns { host: host.clone(), how: rng.pick(&["fin", "rst"]).to_string() } });
                    }
                }
                _ => {}
            }
        }
    }
    let net = if calm { net_calm() } else { NetSpec { latency_ms: (0, *rng.pick(&[0u64, 1, 2])), ..net_swarm(rng) } };
    let mut spec = Spec { config_toml: cfg.render(), hosts: cfg.hosts(), net, clients, actions, end: EndSpec { deadline_ms: 900_000, calm_ms: 100 }, ..Default::default() };
    spec.params = params_from(&cfg);
    spec.params.insert("calm_net".into(), serde_json::json!(calm));
    spec.params.insert("cache_on".into(), serde_json::json!(cfg.pools[0].cache_size > 0));
    spec.params.insert("mirror_mode".into(), serde_json::json!(mode));
    spec.params.insert("mirror_faults".into(), serde_json::json!(fault_kinds));
    spec.family = format!("mirrors/{}{}", ["none", "healthy", "faulty", "faulty"][mode as usize], if session { "/session" } else { "" });
    spec.oracles = vec!["c20_mirrors".into(), "liveness".into()];
    spec
}
