//! Security families: C09 (authentication), C10 (cancel), C11 (hostile bytes).

use super::*;

/// C09: users/databases configured or not, MD5 and trust, cleartext and auth_query secrets,
/// wrong / truncated / oversized / replayed responses, other messages in place of the password,
/// EOF and silence during the handshake, logins during shutdown.
pub fn c09(rng: &mut Rng, thorough: bool, idx: u64) -> Spec {
    let auth_query = idx % 3 == 2;
    let shutdown = idx % 4 == 3;
    let mut cfg = single_pool("transaction", 4, 0);
    cfg.set("connect_timeout", 2000);
    cfg.set("shutdown_timeout", 20000);
    // a second user; optionally a trust user
    cfg.pools[0].users.push(UserDef { key: "1".into(), ..UserDef::new("other", "otherpw", 2) });
    let trust_user = rng.chance(0.3);
    if trust_user {
        let mut u = UserDef::new("trusty", "unused", 2);
        u.key = "2".into();
        u.extra.push("auth_type = \"trust\"".into());
        cfg.pools[0].users.push(u);
    }
    let boot_lookup_down = auth_query && rng.chance(0.4);
    if auth_query {
        // app has no cleartext password: its MD5 secret comes from the servers
        cfg.pools[0].users[0].password = None;
        cfg.pools[0].extra.push("auth_query = \"SELECT * FROM public.user_lookup('$1')\"".into());
        cfg.pools[0].extra.push("auth_query_user = \"aq\"".into());
        cfg.pools[0].extra.push("auth_query_password = \"aqpw\"".into());
    }
    let mut hosts = cfg.hosts();
    for h in hosts.iter_mut() {
        h.users.insert("aq".into(), "aqpw".into());
        h.users.insert("app".into(), "apppw".into());
        h.shadow.insert("app".into(), "apppw".into());
        h.shadow.insert("other".into(), "otherpw".into());
        if boot_lookup_down {
            // the lookup role cannot log in at boot (wrong password on the server side), repaired later
            h.users.insert("aq".into(), "not-yet".into());
        }
    }
    let mut actions = Vec::new();
    let mut clients = Vec::new();
    let mut kinds = serde_json::Map::new();
    let mut id = 0u32;
    let host0 = hosts[0].addr.clone();
    // one or two honest clients first (their responses are the material for replays)
    let n_honest = rng.range(1, 2);
    for _ in 0..n_honest {
        id += 1;
        let mut p = Prog::new(id);
        p.new_txn();
        let s = p.select(1, 0, "");
        p.simple(s);
        p.think(rng.range(5, 60));
        p.new_txn();
        let s = p.select(1, 0, "");
        p.simple(s);
        p.steps.push(Step::Terminate);
        let (user, pw) = if rng.chance(0.7) { ("app", "apppw") } else { ("other", "otherpw") };
        let mut c = client(id, user, "db", pw, rng.range(0, 40), p.steps);
        if boot_lookup_down && user == "app" {
            // honest app logins only after the lookup role was repaired
            c.start = When::After { ev: "lookup_repaired".into(), delay_ms: rng.range(5, 40) };
        }
        c.role = "worker".into();
        kinds.insert(id.to_string(), serde_json::json!("honest"));
        clients.push(c);
    }
    if boot_lookup_down {
        let t = rng.range(100, 300);
        for h in &hosts {
            actions.push(ActionSpec { at: When::AtMs { ms: t }, act: Action::SetHostUser { host: h.addr.clone(), user: "aq".into(), password: "aqpw".into() } });
        }
        actions.push(ActionSpec { at: When::AtMs { ms: t + 1 }, act: Action::Emit { ev: "lookup_repaired".into() } });
    }
    // attackers
    let behaviours = ["wrong", "replay", "truncated", "oversized", "othermsg", "eof", "none", "hash_empty", "unknown_user", "unknown_db", "other_users_password", "admin_wrong", "admin_with_app_password", "wrong_then_flood"];
    let n_att = rng.range(2, if thorough { 7 } else { 5 });
    for _ in 0..n_att {
        id += 1;
        let b = *rng.pick(&behaviours);
        let mut p = Prog::new(id);
        // whatever happens, the attacker goes on sending tagged queries
        for _ in 0..rng.range(1, 3) {
            p.new_txn();
            let s = p.select(1, 0, "");
            p.simple(s);
        }
        p.steps.push(Step::Drop { abort: false });
        let mut c = client(id, "app", "db", "apppw", rng.range(0, 400), p.steps);
        c.role = "attacker".into();
        c.patience_ms = 3000;
        match b {
            "wrong" | "wrong_then_flood" => c.auth = "wrong".into(),
            "replay" => {
                c.auth = format!("replay:{}", 1);
                c.start = When::After { ev: "c1.login_done".into(), delay_ms: rng.range(1, 50) };
                c.user = clients[0].user.clone();
            }
            "truncated" => c.auth = "truncated".into(),
            "oversized" => c.auth = "oversized".into(),
            "othermsg" => c.auth = "othermsg".into(),
            "eof" => c.auth = "eof".into(),
            "none" => c.auth = "none".into(),
            "hash_empty" => c.auth = "hash:".into(),
            "unknown_user" => c.user = "mallory".into(),
            "unknown_db" => c.database = "nosuchdb".into(),
            "other_users_password" => c.password = Some("otherpw".into()),
            "admin_wrong" => {
                c.database = "pgcat".into();
                c.user = "admin".into();
                c.password = Some("guess".into());
            }
            "admin_with_app_password" => {
                c.database = "pgcat".into();
                c.user = "admin".into();
                c.password = Some("apppw".into());
            }
            _ => {}
        }
        if rng.chance(0.2) {
            c.ssl_probe = true;
        }
        kinds.insert(id.to_string(), serde_json::json!(b));
        clients.push(c);
    }
    // a legitimate admin and (optionally) a trust user
    id += 1;
    let mut a = admin_client(id, "main", When::AtMs { ms: rng.range(0, 200) }, &["SHOW VERSION"]);
    a.role = "admin".into();
    kinds.insert(id.to_string(), serde_json::json!("honest_admin"));
    clients.push(a);
    if trust_user {
        id += 1;
        let mut p = Prog::new(id);
        p.new_txn();
        let s = p.select(1, 0, "");
        p.simple(s);
        p.steps.push(Step::Terminate);
        let mut c = client(id, "trusty", "db", "whatever", rng.range(0, 200), p.steps);
        c.role = "worker".into();
        kinds.insert(id.to_string(), serde_json::json!("honest_trust"));
        clients.push(c);
    }
    // auth_query: the secret changes on the servers mid-run; the old password stops working
    let mut shadow_change_ms = 0u64;
    if auth_query && rng.chance(0.5) {
        shadow_change_ms = rng.range(300, 600);
        for h in &hosts {
            actions.push(ActionSpec { at: When::AtMs { ms: shadow_change_ms }, act: Action::SetShadow { host: h.addr.clone(), user: "app".into(), password: "newpw".into() } });
        }
        id += 1;
        let mut p = Prog::new(id);
        p.new_txn();
        let s = p.select(1, 0, "");
        p.simple(s);
        p.steps.push(Step::Terminate);
        let mut c = client(id, "app", "db", "newpw", shadow_change_ms + rng.range(50, 200), p.steps);
        c.role = "worker".into();
        kinds.insert(id.to_string(), serde_json::json!("honest_new_password"));
        clients.push(c);
        id += 1;
        let mut p = Prog::new(id);
        p.new_txn();
        let s = p.select(1, 0, "");
        p.simple(s);
        p.steps.push(Step::Drop { abort: false });
        let mut c = client(id, "app", "db", "apppw", shadow_change_ms + rng.range(250, 400), p.steps);
        c.role = "attacker".into();
        c.patience_ms = 3000;
        kinds.insert(id.to_string(), serde_json::json!("old_password_after_change"));
        clients.push(c);
    }
    // graceful shutdown with a transaction still open: logins arriving afterwards (with valid and
    // invalid credentials) must all be refused, except for the admin database
    let mut sig_ms = 0u64;
    if shutdown {
        sig_ms = rng.range(300, 900);
        id += 1;
        let mut p = Prog::new(id);
        p.new_txn();
        let s = p.select(1, 0, "");
        p.simple("BEGIN".into());
        p.simple(s);
        p.think(sig_ms + rng.range(300, 1500));
        p.simple("COMMIT".into());
        p.steps.push(Step::Terminate);
        let mut c = client(id, "other", "db", "otherpw", rng.range(0, 50), p.steps);
        c.role = "worker".into();
        kinds.insert(id.to_string(), serde_json::json!("honest_holder"));
        clients.push(c);
        actions.push(ActionSpec { at: When::AtMs { ms: sig_ms }, act: Action::Signal { sig: "INT".into() } });
        for _ in 0..rng.range(1, 4) {
            id += 1;
            let b = *rng.pick(&["late_correct", "late_correct", "late_wrong", "late_trust", "late_admin"]);
            let mut p = Prog::new(id);
            p.new_txn();
            let s = p.select(1, 0, "");
            p.simple(s);
            p.steps.push(Step::Drop { abort: false });
            let at = sig_ms + rng.range(2, 250);
            let mut c = client(id, "app", "db", if auth_query && shadow_change_ms > 0 && at > shadow_change_ms { "newpw" } else { "apppw" }, at, p.steps);
            c.role = "attacker".into();
            c.patience_ms = 3000;
            match b {
                "late_wrong" => c.auth = "wrong".into(),
                "late_trust" if trust_user => c.user = "trusty".into(),
                "late_admin" => {
                    c = admin_client(id, "main", When::AtMs { ms: at }, &["SHOW VERSION"]);
                    c.role = "admin".into();
                }
                _ => {}
            }
            kinds.insert(id.to_string(), serde_json::json!(b));
            clients.push(c);
        }
    }
    let net = if rng.chance(0.5) { net_calm() } else { NetSpec { latency_ms: (0, *rng.pick(&[0u64, 1, 2])), ..net_swarm(rng) } };
    let mut spec = Spec { config_toml: cfg.render(), hosts, net, clients, actions, end: EndSpec { deadline_ms: 900_000, calm_ms: 50 }, ..Default::default() };
    spec.params = params_from(&cfg);
    spec.params.insert("c09_kinds".into(), serde_json::Value::Object(kinds));
    spec.params.insert("auth_query".into(), serde_json::json!(auth_query));
    spec.params.insert("boot_lookup_down".into(), serde_json::json!(boot_lookup_down));
    spec.params.insert("shadow_change_ms".into(), serde_json::json!(shadow_change_ms));
    spec.params.insert("trust_user".into(), serde_json::json!(trust_user));
    spec.params.insert("sigint_ms".into(), serde_json::json!(sig_ms));
    spec.params.insert("lookup_host".into(), serde_json::json!(host0));
    spec.family = format!("auth/{}{}", if auth_query { "auth_query" } else { "cleartext" }, if boot_lookup_down { "/lookup_down_at_boot" } else { "" }) + if shutdown { "/shutdown" } else { "" };
    spec.oracles = vec!["c09_auth".into(), "liveness".into()];
    spec
}
