//! Security families: C09 (authentication), C10 (cancel), C11 (hostile bytes).

use super::*;

/// C09: users/databases configured or not, MD5 and trust, cleartext and auth_query secrets,
/// wrong / truncated / oversized / replayed responses, other messages in place of the password,
/// EOF and silence during the handshake, logins during shutdown.
pub fn c09(rng: &mut Rng, thorough: bool, idx: u64) -> Spec {
    let auth_query = idx % 3 == 2;
    let shutdown = idx % 4 == 3;
    let mut cfg = single_pool("transaction", 4, 0);
    cfg.set("connect_timeout", 2000);
    cfg.set("shutdown_timeout", 20000);
    // a second user; optionally a trust user
    cfg.pools[0].users.push(UserDef { key: "1".into(), ..UserDef::new("other", "otherpw", 2) });
    let trust_user = rng.chance(0.3);
    if trust_user {
        let mut u = UserDef::new("trusty", "unused", 2);
        u.key = "2".into();
        u.extra.push("auth_type = \"trust\"".into());
        cfg.pools[0].users.push(u);
    }
    let boot_lookup_down = auth_query && rng.chance(0.4);
    if auth_query {
        // app has no cleartext password: its MD5 secret comes from the servers
        cfg.pools[0].users[0].password = None;
        cfg.pools[0].extra.push("auth_query = \"SELECT * FROM public.user_lookup('$1')\"".into());
        cfg.pools[0].extra.push("auth_query_user = \"aq\"".into());
        cfg.pools[0].extra.push("auth_query_password = \"aqpw\"".into());
    }
    let mut hosts = cfg.hosts();
    for h in hosts.iter_mut() {
        h.users.insert("aq".into(), "aqpw".into());
        h.users.insert("app".into(), "apppw".into());
        h.shadow.insert("app".into(), "apppw".into());
        h.shadow.insert("other".into(), "otherpw".into());
        if boot_lookup_down {
            // the lookup role cannot log in at boot (wrong password on the server side), repaired later
            h.users.insert("aq".into(), "not-yet".into());
        }
    }
    let mut actions = Vec::new();
    let mut clients = Vec::new();
    let mut kinds = serde_json::Map::new();
    let mut id = 0u32;
    let host0 = hosts[0].addr.clone();
    // one or two honest clients first (their responses are the material for replays)
    let n_honest = rng.range(1, 2);
    for _ in 0..n_honest {
        id += 1;
        let mut p = Prog::new(id);
        p.new_txn();
        let s = p.select(1, 0, "");
        p.simple(s);
        p.think(rng.range(5, 60));
        p.new_txn();
        let s = p.select(1, 0, "");
        p.simple(s);
        p.steps.push(Step::Terminate);
        let (user, pw) = if rng.chance(0.7) { ("app", "apppw") } else { ("other", "otherpw") };
        let mut c = client(id, user, "db", pw, rng.range(0, 40), p.steps);
        if boot_lookup_down && user == "app" {
            // honest app logins only after the lookup role was repaired
            c.start = When::After { ev: "lookup_repaired".into(), delay_ms: rng.range(5, 40) };
        }
        c.role = "worker".into();
        kinds.insert(id.to_string(), serde_json::json!("honest"));
        clients.push(c);
    }
    if boot_lookup_down {
        let t = rng.range(100, 300);
        for h in &hosts {
            actions.push(ActionSpec { at: When::AtMs { ms: t }, act: Action::SetHostUser { host: h.addr.clone(), user: "aq".into(), password: "aqpw".into() } });
        }
        actions.push(ActionSpec { at: When::AtMs { ms: t + 1 }, act: Action::Emit { ev: "lookup_repaired".into() } });
    }
    // attackers
    let behaviours = ["wrong", "replay", "truncated", "oversized", "othermsg", "eof", "none", "hash_empty", "unknown_user", "unknown_db", "other_users_password", "admin_wrong", "admin_with_app_password", "wrong_then_flood"];
    let n_att = rng.range(2, if thorough { 7 } else { 5 });
    for _ in 0..n_att {
        id += 1;
        let b = *rng.pick(&behaviours);
        let mut p = Prog::new(id);
        // whatever happens, the attacker goes on sending tagged queries
        for _ in 0..rng.range(1, 3) {
            p.new_txn();
            let s = p.select(1, 0, "");
            p.simple(s);
        }
        p.steps.push(Step::Drop { abort: false });
        let mut c = client(id, "app", "db", "apppw", rng.range(0, 400), p.steps);
        c.role = "attacker".into();
        c.patience_ms = 3000;
        match b {
            "wrong" | "wrong_then_flood" => c.auth = "wrong".into(),
            "replay" => {
                c.auth = format!("replay:{}", 1);
                c.start = When::After { ev: "c1.login_done".into(), delay_ms: rng.range(1, 50) };
                c.user = clients[0].user.clone();
            }
            "truncated" => c.auth = "truncated".into(),
            "oversized" => c.auth = "oversized".into(),
            "othermsg" => c.auth = "othermsg".into(),
            "eof" => c.auth = "eof".into(),
            "none" => c.auth = "none".into(),
            "hash_empty" => c.auth = "hash:".into(),
            "unknown_user" => c.user = "mallory".into(),
            "unknown_db" => c.database = "nosuchdb".into(),
            "other_users_password" => c.password = Some("otherpw".into()),
            "admin_wrong" => {
                c.database = "pgcat".into();
                c.user = "admin".into();
                c.password = Some("guess".into());
            }
            "admin_with_app_password" => {
                c.database = "pgcat".into();
                c.user = "admin".into();
                c.password = Some("apppw".into());
            }
            _ => {}
        }
        if rng.chance(0.2) {
            c.ssl_probe = true;
        }
        kinds.insert(id.to_string(), serde_json::json!(b));
        clients.push(c);
    }
    // a legitimate admin and (optionally) a trust user
    id += 1;
    let mut a = admin_client(id, "main", When::AtMs { ms: rng.range(0, 200) }, &["SHOW VERSION"]);
    a.role = "admin".into();
    kinds.insert(id.to_string(), serde_json::json!("honest_admin"));
    clients.push(a);
    if trust_user {
        id += 1;
        let mut p = Prog::new(id);
        p.new_txn();
        let s = p.select(1, 0, "");
        p.simple(s);
        p.steps.push(Step::Terminate);
        let mut c = client(id, "trusty", "db", "whatever", rng.range(0, 200), p.steps);
        c.role = "worker".into();
        kinds.insert(id.to_string(), serde_json::json!("honest_trust"));
        clients.push(c);
    }
    // auth_query: the secret changes on the servers mid-run; the old password stops working
    let mut shadow_change_ms = 0u64;
    if auth_query && rng.chance(0.5) {
        shadow_change_ms = rng.range(300, 600);
        for h in &hosts {
            actions.push(ActionSpec { at: When::AtMs { ms: shadow_change_ms }, act: Action::SetShadow { host: h.addr.clone(), user: "app".into(), password: "newpw".into() } });
        }
        id += 1;
        let mut p = Prog::new(id);
        p.new_txn();
        let s = p.select(1, 0, "");
        p.simple(s);
        p.steps.push(Step::Terminate);
        let mut c = client(id, "app", "db", "newpw", shadow_change_ms + rng.range(50, 200), p.steps);
        c.role = "worker".into();
        kinds.insert(id.to_string(), serde_json::json!("honest_new_password"));
        clients.push(c);
        id += 1;
        let mut p = Prog::new(id);
        p.new_txn();
        let s = p.select(1, 0, "");
        p.simple(s);
        p.steps.push(Step::Drop { abort: false });
        let mut c = client(id, "app", "db", "apppw", shadow_change_ms + rng.range(250, 400), p.steps);
        c.role = "attacker".into();
        c.patience_ms = 3000;
        kinds.insert(id.to_string(), serde_json::json!("old_password_after_change"));
        clients.push(c);
    }
    // graceful shutdown with a transaction still open: logins arriving afterwards (with valid and
    // invalid credentials) must all be refused, except for the admin database
    let mut sig_ms = 0u64;
    if shutdown {
        sig_ms = rng.range(300, 900);
        id += 1;
        let mut p = Prog::new(id);
        p.new_txn();
        let s = p.select(1, 0, "");
        p.simple("BEGIN".into());
        p.simple(s);
        p.think(sig_ms + rng.range(300, 1500));
        p.simple("COMMIT".into());
        p.steps.push(Step::Terminate);
        let mut c = client(id, "other", "db", "otherpw", rng.range(0, 50), p.steps);
        c.role = "worker".into();
        kinds.insert(id.to_string(), serde_json::json!("honest_holder"));
        clients.push(c);
        actions.push(ActionSpec { at: When::AtMs { ms: sig_ms }, act: Action::Signal { sig: "INT".into() } });
        for _ in 0..rng.range(1, 4) {
            id += 1;
            let b = *rng.pick(&["late_correct", "late_correct", "late_wrong", "late_trust", "late_admin"]);
            let mut p = Prog::new(id);
            p.new_txn();
            let s = p.select(1, 0, "");
            p.simple(s);
            p.steps.push(Step::Drop { abort: false });
            let at = sig_ms + rng.range(2, 250);
            let mut c = client(id, "app", "db", if auth_query && shadow_change_ms > 0 && at > shadow_change_ms { "newpw" } else { "apppw" }, at, p.steps);
            c.role = "attacker".into();
            c.patience_ms = 3000;
            match b {
                "late_wrong" => c.auth = "wrong".into(),
                "late_trust" if trust_user => c.user = "trusty".into(),
                "late_admin" => {
                    c = admin_client(id, "main", When::AtMs { ms: at }, &["SHOW VERSION"]);
                    c.role = "admin".into();
                }
                _ => {}
            }
            kinds.insert(id.to_string(), serde_json::json!(b));
            clients.push(c);
        }
    }
    let net = if rng.chance(0.5) { net_calm() } else { NetSpec { latency_ms: (0, *rng.pick(&[0u64, 1, 2])), ..net_swarm(rng) } };
    let mut spec = Spec { config_toml: cfg.render(), hosts, net, clients, actions, end: EndSpec { deadline_ms: 900_000, calm_ms: 50 }, ..Default::default() };
    spec.params = params_from(&cfg);
    spec.params.insert("c09_kinds".into(), serde_json::Value::Object(kinds));
    spec.params.insert("auth_query".into(), serde_json::json!(auth_query));
    spec.params.insert("boot_lookup_down".into(), serde_json::json!(boot_lookup_down));
    spec.params.insert("shadow_change_ms".into(), serde_json::json!(shadow_change_ms));
    spec.params.insert("trust_user".into(), serde_json::json!(trust_user));
    spec.params.insert("sigint_ms".into(), serde_json::json!(sig_ms));
    spec.params.insert("lookup_host".into(), serde_json::json!(host0));
    spec.family = format!("auth/{}{}", if auth_query { "auth_query" } else { "cleartext" }, if boot_lookup_down { "/lookup_down_at_boot" } else { "" }) + if shutdown { "/shutdown" } else { "" };
    spec.oracles = vec!["c09_auth".into(), "liveness".into()];
    spec
}

/// C10: runners with long-running statements (bare and inside transactions), short ones,
/// idle periods and departures inside a transaction; cancellers sending CancelRequests with the
/// target's key (while it runs, right after its transaction ended, long after, after it left),
/// with a wrong secret, a wrong pid, or a random key. Small pools so that the server a client
/// used is immediately borrowed by another one.
pub fn c10(rng: &mut Rng, thorough: bool, idx: u64) -> Spec {
    let session = idx % 5 == 4;
    let pool_size = rng.range(1, 2) as u32;
    let replicas = *rng.pick(&[0usize, 0, 1, 2]);
    let mut cfg = single_pool(if session { "session" } else { "transaction" }, pool_size, replicas);
    cfg.set("connect_timeout", 60000);
    cfg.pools[0].lb = rng.pick(&["random", "loc"]).to_string();
    let nrun = rng.range(2, if thorough { 5 } else { 4 }) as u32;
    let mut clients = Vec::new();
    // (client, step idx of a sleeping statement, sleep ms), (client, step idx of the last step of a txn), leavers
    let mut sleeps: Vec<(u32, usize, u64)> = Vec::new();
    let mut txn_ends: Vec<(u32, usize)> = Vec::new();
    let mut leavers: Vec<u32> = Vec::new();
    for id in 1..=nrun {
        let mut p = Prog::new(id);
        let nblocks = rng.range(1, if thorough { 5 } else { 3 });
        let leaves_in_txn = !session && rng.chance(0.3);
        for b in 0..nblocks {
            if rng.chance(0.6) {
                p.think(rng.range(0, 250));
            }
            p.new_txn();
            let last = b + 1 == nblocks;
            if last && leaves_in_txn {
                p.simple("BEGIN".into());
                let s = p.select(1, 0, "");
                p.simple(s);
                break;
            }
            match rng.below(4) {
                0 => {
                    let s = p.select(1, 0, "");
                    p.simple(s);
                }
                1 => {
                    let ms = rng.range(80, 700);
                    let s = p.select(1, 0, &format!(", sim_sleep({})", ms));
                    p.simple(s);
                    sleeps.push((id, p.steps.len() - 1, ms));
                }
                2 => {
                    p.simple("BEGIN".into());
                    let ms = rng.range(80, 700);
                    let s = p.select(1, 0, &format!(", sim_sleep({})", ms));
                    p.simple(s);
                    sleeps.push((id, p.steps.len() - 1, ms));
                    if rng.chance(0.5) {
                        p.think(rng.range(0, 60));
                        let s = p.select(1, 0, "");
                        p.simple(s);
                    }
                    p.simple(if rng.chance(0.8) { "COMMIT" } else { "ROLLBACK" }.into());
                }
                _ => {
                    // extended protocol with a sleeping Execute
                    let ms = rng.range(80, 500);
                    let tag = p.tag();
                    let sql = format!("SELECT '{}', sim_sleep({})", tag, ms);
                    p.send(vec![
                        FrontMsg::P { name: String::new(), sql, types: vec![] },
                        FrontMsg::B { portal: String::new(), stmt: String::new(), fmt: vec![], params: vec![], rfmt: vec![], binary_hex: false },
                        FrontMsg::E { portal: String::new(), max: 0 },
                        FrontMsg::S,
                    ]);
                    sleeps.push((id, p.steps.len() - 1, ms));
                }
            }
            txn_ends.push((id, p.steps.len() - 1));
        }
        if leaves_in_txn {
            p.steps.push(Step::Drop { abort: rng.chance(0.5) });
            leavers.push(id);
        } else if rng.chance(0.7) {
            p.steps.push(Step::Terminate);
        } else {
            p.steps.push(Step::Drop { abort: false });
        }
        let mut c = client(id, "app", "db", "apppw", rng.range(0, 150), p.steps);
        c.role = "worker".into();
        clients.push(c);
    }
    // a late victim: starts a long statement after everybody else has been at work for a while
    let victim = nrun + 1;
    {
        let mut p = Prog::new(victim);
        for _ in 0..rng.range(1, 3) {
            p.new_txn();
            let s = p.select(1, 0, &format!(", sim_sleep({})", rng.range(300, 1200)));
            p.simple(s);
            p.think(rng.range(0, 50));
        }
        p.steps.push(Step::Terminate);
        let mut c = client(victim, "app", "db", "apppw", rng.range(100, 900), p.steps);
        c.role = "canary".into();
        clients.push(c);
    }
    // cancellers
    let ncanc = rng.range(1, if thorough { 4 } else { 3 }) as u32;
    for k in 0..ncanc {
        let id = 100 + k;
        let mut steps = Vec::new();
        for _ in 0..rng.range(1, 4) {
            let mode = rng.below(10);
            let (ev, delay, target, key): (Option<String>, u64, u32, &str) = match mode {
                // while the target's statement runs
                0..=2 if !sleeps.is_empty() => {
                    let (c, s, ms) = *rng.pick(&sleeps);
                    (Some(format!("c{}.s{}.sent", c, s)), rng.range(0, ms.saturating_sub(20).max(1)), c, "target")
                }
                // same moment, wrong key material
                3 if !sleeps.is_empty() => {
                    let (c, s, ms) = *rng.pick(&sleeps);
                    (Some(format!("c{}.s{}.sent", c, s)), rng.range(0, ms / 2), c, *rng.pick(&["wrongsecret", "wrongpid", "random"]))
                }
                // right after / well after the end of a transaction
                4..=6 if !txn_ends.is_empty() => {
                    let (c, s) = *rng.pick(&txn_ends);
                    let d = if rng.chance(0.4) { rng.range(0, 3) } else { rng.range(150, 600) };
                    (Some(format!("c{}.s{}.done", c, s)), d, c, "target")
                }
                // after the target left (inside a transaction, if there is such a client)
                7 | 8 => {
                    let c = if !leavers.is_empty() { *rng.pick(&leavers) } else { rng.range(1, nrun as u64) as u32 };
                    (Some(format!("c{}.done", c)), if rng.chance(0.3) { rng.range(0, 3) } else { rng.range(150, 800) }, c, "target")
                }
                _ => (None, rng.range(0, 1500), rng.range(1, victim as u64) as u32, *rng.pick(&["target", "target", "random", "wrongsecret"])),
            };
            if let Some(ev) = ev {
                steps.push(Step::Wait { ev });
            }
            steps.push(Step::Think { ms: delay });
            steps.push(Step::Cancel { target, key: key.to_string() });
        }
        steps.push(Step::Terminate);
        let mut c = client(id, "app", "db", "apppw", 0, steps);
        c.role = "canceller".into();
        clients.push(c);
    }
    let net = if rng.chance(0.4) { net_calm() } else { NetSpec { latency_ms: (0, *rng.pick(&[0u64, 1, 3])), jitter_ms: *rng.pick(&[0u64, 0, 1]), ..net_swarm(rng) } };
    let mut spec = Spec { config_toml: cfg.render(), hosts: cfg.hosts(), net, clients, end: EndSpec { deadline_ms: 900_000, calm_ms: 50 }, ..Default::default() };
    for site in ["client.after_claim", "client.before_release", "client.before_get"] {
        if rng.chance(0.3) {
            spec.yield_sites.push((site.to_string(), rng.range(1, 4) as u32));
        }
    }
    spec.params = params_from(&cfg);
    spec.family = format!("cancel/{}/pool{}/rep{}", if session { "session" } else { "transaction" }, pool_size, replicas);
    spec.oracles = vec!["c10_cancel".into(), "liveness".into(), "no_panic".into()];
    spec
}
