//! Security families: C09 (authentication), C10 (cancel), C11 (hostile bytes).

use super::*;
use crate::proto;

/// C09: users/databases configured or not, MD5 and trust, cleartext and auth_query secrets,
/// wrong / truncated / oversized / replayed responses, other messages in place of the password,
/// EOF and silence during the handshake, logins during shutdown.
pub fn c09(rng: &mut Rng, thorough: bool, idx: u64) -> Spec {
    let auth_query = idx % 3 == 2;
    let shutdown = idx % 4 == 3;
    // every fifth run: the pooler offers TLS (the repository's own test certificate) and most
    // clients, honest or not, take it
    let tls = idx % 5 == 4;
    let mut cfg = single_pool("transaction", 4, 0);
    cfg.set("connect_timeout", 2000);
    cfg.set("shutdown_timeout", 20000);
    if tls {
        cfg.set("tls_certificate", "\"/repo/.circleci/server.cert\"");
        cfg.set("tls_private_key", "\"/repo/.circleci/server.key\"");
    }
    // a second user; optionally a trust user
    cfg.pools[0].users.push(UserDef { key: "1".into(), ..UserDef::new("other", "otherpw", 2) });
    let trust_user = rng.chance(0.3);
    if trust_user {
        let mut u = UserDef::new("trusty", "unused", 2);
        u.key = "2".into();
        u.extra.push("auth_type = \"trust\"".into());
        cfg.pools[0].users.push(u);
    }
    let boot_lookup_down = auth_query && rng.chance(0.4);
    if auth_query {
        // app has no cleartext password: its MD5 secret comes from the servers
        cfg.pools[0].users[0].password = None;
        cfg.pools[0].extra.push("auth_query = \"SELECT * FROM public.user_lookup('$1')\"".into());
        cfg.pools[0].extra.push("auth_query_user = \"aq\"".into());
        cfg.pools[0].extra.push("auth_query_password = \"aqpw\"".into());
    }
    let mut hosts = cfg.hosts();
    for h in hosts.iter_mut() {
        h.users.insert("aq".into(), "aqpw".into());
        h.users.insert("app".into(), "apppw".into());
        h.shadow.insert("app".into(), "apppw".into());
        h.shadow.insert("other".into(), "otherpw".into());
        if boot_lookup_down {
            // the lookup role cannot log in at boot (wrong password on the server side), repaired later
            h.users.insert("aq".into(), "not-yet".into());
        }
    }
    let mut actions = Vec::new();
    let mut clients = Vec::new();
    let mut kinds = serde_json::Map::new();
    let mut id = 0u32;
    let host0 = hosts[0].addr.clone();
    // one or two honest clients first (their responses are the material for replays)
    let n_honest = rng.range(1, 2);
    for _ in 0..n_honest {
        id += 1;
        let mut p = Prog::new(id);
        p.new_txn();
        let s = p.select(1, 0, "");
        p.simple(s);
        p.think(rng.range(5, 60));
        p.new_txn();
        let s = p.select(1, 0, "");
        p.simple(s);
        p.steps.push(Step::Terminate);
        let (user, pw) = if rng.chance(0.7) { ("app", "apppw") } else { ("other", "otherpw") };
        let mut c = client(id, user, "db", pw, rng.range(0, 40), p.steps);
        if boot_lookup_down && user == "app" {
            // honest app logins only after the lookup role was repaired
            c.start = When::After { ev: "lookup_repaired".into(), delay_ms: rng.range(5, 40) };
        }
        c.role = "worker".into();
        kinds.insert(id.to_string(), serde_json::json!("honest"));
        clients.push(c);
    }
    if boot_lookup_down {
        let t = rng.range(100, 300);
        for h in &hosts {
            actions.push(ActionSpec { at: When::AtMs { ms: t }, act: Action::SetHostUser { host: h.addr.clone(), user: "aq".into(), password: "aqpw".into() } });
        }
        actions.push(ActionSpec { at: When::AtMs { ms: t + 1 }, act: Action::Emit { ev: "lookup_repaired".into() } });
    }
    // attackers
    let behaviours = ["wrong", "replay", "truncated", "oversized", "othermsg", "eof", "none", "hash_empty", "unknown_user", "unknown_db", "other_users_password", "admin_wrong", "admin_with_app_password", "wrong_then_flood"];
    let n_att = rng.range(2, if thorough { 7 } else { 5 });
    for _ in 0..n_att {
        id += 1;
        let b = *rng.pick(&behaviours);
        let mut p = Prog::new(id);
        // whatever happens, the attacker goes on sending tagged queries
        for _ in 0..rng.range(1, 3) {
            p.new_txn();
            let s = p.select(1, 0, "");
            p.simple(s);
        }
        p.steps.push(Step::Drop { abort: false });
        let mut c = client(id, "app", "db", "apppw", rng.range(0, 400), p.steps);
        c.role = "attacker".into();
        c.patience_ms = 3000;
        match b {
            "wrong" | "wrong_then_flood" => c.auth = "wrong".into(),
            "replay" => {
                c.auth = format!("replay:{}", 1);
                c.start = When::After { ev: "c1.login_done".into(), delay_ms: rng.range(1, 50) };
                c.user = clients[0].user.clone();
            }
            "truncated" => c.auth = "truncated".into(),
            "oversized" => c.auth = "oversized".into(),
            "othermsg" => c.auth = "othermsg".into(),
            "eof" => c.auth = "eof".into(),
            "none" => c.auth = "none".into(),
            "hash_empty" => c.auth = "hash:".into(),
            "unknown_user" => c.user = "mallory".into(),
            "unknown_db" => c.database = "nosuchdb".into(),
            "other_users_password" => c.password = Some("otherpw".into()),
            "admin_wrong" => {
                c.database = "pgcat".into();
                c.user = "admin".into();
                c.password = Some("guess".into());
            }
            "admin_with_app_password" => {
                c.database = "pgcat".into();
                c.user = "admin".into();
                c.password = Some("apppw".into());
            }
            _ => {}
        }
        if rng.chance(0.2) {
            c.ssl_probe = true;
        }
        kinds.insert(id.to_string(), serde_json::json!(b));
        clients.push(c);
    }
    // a legitimate admin and (optionally) a trust user
    id += 1;
    let mut a = admin_client(id, "main", When::AtMs { ms: rng.range(0, 200) }, &["SHOW VERSION"]);
    a.role = "admin".into();
    kinds.insert(id.to_string(), serde_json::json!("honest_admin"));
    clients.push(a);
    if trust_user {
        id += 1;
        let mut p = Prog::new(id);
        p.new_txn();
        let s = p.select(1, 0, "");
        p.simple(s);
        p.steps.push(Step::Terminate);
        let mut c = client(id, "trusty", "db", "whatever", rng.range(0, 200), p.steps);
        c.role = "worker".into();
        kinds.insert(id.to_string(), serde_json::json!("honest_trust"));
        clients.push(c);
    }
    // auth_query: the secret changes on the servers mid-run; the old password stops working
    let mut shadow_change_ms = 0u64;
    if auth_query && rng.chance(0.5) {
        shadow_change_ms = rng.range(300, 600);
        for h in &hosts {
            actions.push(ActionSpec { at: When::AtMs { ms: shadow_change_ms }, act: Action::SetShadow { host: h.addr.clone(), user: "app".into(), password: "newpw".into() } });
        }
        id += 1;
        let mut p = Prog::new(id);
        p.new_txn();
        let s = p.select(1, 0, "");
        p.simple(s);
        p.steps.push(Step::Terminate);
        let mut c = client(id, "app", "db", "newpw", shadow_change_ms + rng.range(50, 200), p.steps);
        c.role = "worker".into();
        kinds.insert(id.to_string(), serde_json::json!("honest_new_password"));
        clients.push(c);
        id += 1;
        let mut p = Prog::new(id);
        p.new_txn();
        let s = p.select(1, 0, "");
        p.simple(s);
        p.steps.push(Step::Drop { abort: false });
        let mut c = client(id, "app", "db", "apppw", shadow_change_ms + rng.range(250, 400), p.steps);
        c.role = "attacker".into();
        c.patience_ms = 3000;
        kinds.insert(id.to_string(), serde_json::json!("old_password_after_change"));
        clients.push(c);
    }
    // graceful shutdown with a transaction still open: logins arriving afterwards (with valid and
    // invalid credentials) must all be refused, except for the admin database
    let mut sig_ms = 0u64;
    if shutdown {
        sig_ms = rng.range(300, 900);
        id += 1;
        let mut p = Prog::new(id);
        p.new_txn();
        let s = p.select(1, 0, "");
        p.simple("BEGIN".into());
        p.simple(s);
        p.think(sig_ms + rng.range(300, 1500));
        p.simple("COMMIT".into());
        p.steps.push(Step::Terminate);
        let mut c = client(id, "other", "db", "otherpw", rng.range(0, 50), p.steps);
        c.role = "worker".into();
        kinds.insert(id.to_string(), serde_json::json!("honest_holder"));
        clients.push(c);
        actions.push(ActionSpec { at: When::AtMs { ms: sig_ms }, act: Action::Signal { sig: "INT".into() } });
        for _ in 0..rng.range(1, 4) {
            id += 1;
            let b = *rng.pick(&["late_correct", "late_correct", "late_wrong", "late_trust", "late_admin"]);
            let mut p = Prog::new(id);
            p.new_txn();
            let s = p.select(1, 0, "");
            p.simple(s);
            p.steps.push(Step::Drop { abort: false });
            let at = sig_ms + rng.range(2, 250);
            let mut c = client(id, "app", "db", if auth_query && shadow_change_ms > 0 && at > shadow_change_ms { "newpw" } else { "apppw" }, at, p.steps);
            c.role = "attacker".into();
            c.patience_ms = 3000;
            match b {
                "late_wrong" => c.auth = "wrong".into(),
                "late_trust" if trust_user => c.user = "trusty".into(),
                "late_admin" => {
                    c = admin_client(id, "main", When::AtMs { ms: at }, &["SHOW VERSION"]);
                    c.role = "admin".into();
                }
                _ => {}
            }
            // psql's default: ask for TLS first, continue in plain when refused
            if rng.chance(0.4) {
                c.ssl_probe = true;
            }
            kinds.insert(id.to_string(), serde_json::json!(b));
            clients.push(c);
        }
    }
    if tls {
        for c in clients.iter_mut() {
            c.tls = rng.chance(0.75);
        }
    }
    let net = if rng.chance(0.5) { net_calm() } else { NetSpec { latency_ms: (0, *rng.pick(&[0u64, 1, 2])), ..net_swarm(rng) } };
    let mut spec = Spec { config_toml: cfg.render(), hosts, net, clients, actions, end: EndSpec { deadline_ms: 900_000, calm_ms: 50 }, ..Default::default() };
    spec.params = params_from(&cfg);
    spec.params.insert("tls".into(), serde_json::json!(tls));
    spec.params.insert("c09_kinds".into(), serde_json::Value::Object(kinds));
    spec.params.insert("auth_query".into(), serde_json::json!(auth_query));
    spec.params.insert("boot_lookup_down".into(), serde_json::json!(boot_lookup_down));
    spec.params.insert("shadow_change_ms".into(), serde_json::json!(shadow_change_ms));
    spec.params.insert("trust_user".into(), serde_json::json!(trust_user));
    spec.params.insert("sigint_ms".into(), serde_json::json!(sig_ms));
    spec.params.insert("lookup_host".into(), serde_json::json!(host0));
    spec.family = format!("auth/{}{}", if auth_query { "auth_query" } else { "cleartext" }, if boot_lookup_down { "/lookup_down_at_boot" } else { "" }) + if shutdown { "/shutdown" } else { "" } + if tls { "/tls" } else { "" };
    spec.oracles = vec!["c09_auth".into(), "liveness".into()];
    spec
}

/// C10: runners with long-running statements (bare and inside transactions), short ones,
/// idle periods and departures inside a transaction; cancellers sending CancelRequests with the
/// target's key (while it runs, right after its transaction ended, long after, after it left),
/// with a wrong secret, a wrong pid, or a random key. Small pools so that the server a client
/// used is immediately borrowed by another one.
pub fn c10(rng: &mut Rng, thorough: bool, idx: u64) -> Spec {
    let session = idx % 5 == 4;
    let pool_size = rng.range(1, 2) as u32;
    let replicas = *rng.pick(&[0usize, 0, 1, 2]);
    let mut cfg = single_pool(if session { "session" } else { "transaction" }, pool_size, replicas);
    cfg.set("connect_timeout", 60000);
    cfg.pools[0].lb = rng.pick(&["random", "loc"]).to_string();
    // half of the runs: clients idle inside a transaction lose their server after this long
    // (in session mode too), while staying connected
    let idle_timeout: u64 = if rng.chance(0.5) { rng.range(80, 300) } else { 0 };
    cfg.set("idle_client_in_transaction_timeout", idle_timeout);
    let nrun = rng.range(2, if thorough { 5 } else { 4 }) as u32;
    let mut clients = Vec::new();
    // (client, step idx of a sleeping statement, sleep ms), (client, step idx of the last step of a txn), leavers
    let mut sleeps: Vec<(u32, usize, u64)> = Vec::new();
    let mut txn_ends: Vec<(u32, usize)> = Vec::new();
    let mut leavers: Vec<u32> = Vec::new();
    let mut idle_losers: Vec<(u32, usize)> = Vec::new();
    for id in 1..=nrun {
        let mut p = Prog::new(id);
        let nblocks = rng.range(1, if thorough { 5 } else { 3 });
        let leaves_in_txn = !session && rng.chance(0.3);
        for b in 0..nblocks {
            if rng.chance(0.6) {
                p.think(rng.range(0, 250));
            }
            p.new_txn();
            let last = b + 1 == nblocks;
            if idle_timeout > 0 && rng.chance(0.35) {
                // sits idle inside a transaction until the pooler takes the server away
                p.simple("BEGIN".into());
                let s = p.select(1, 0, "");
                p.simple(s);
                p.steps.push(Step::Hold { until: None, max_ms: idle_timeout + rng.range(150, 700) });
                txn_ends.push((id, p.steps.len() - 1));
                idle_losers.push((id, p.steps.len() - 1));
                if rng.chance(0.5) {
                    // the transaction is gone: this is answered by whatever server comes next
                    p.new_txn();
                    let s = p.select(1, 0, "");
                    p.simple(s);
                }
                continue;
            }
            if last && leaves_in_txn {
                p.simple("BEGIN".into());
                let s = p.select(1, 0, "");
                p.simple(s);
                break;
            }
            match rng.below(4) {
                0 => {
                    let s = p.select(1, 0, "");
                    p.simple(s);
                }
                1 => {
                    let ms = rng.range(80, 700);
                    let s = p.select(1, 0, &format!(", sim_sleep({})", ms));
                    p.simple(s);
                    sleeps.push((id, p.steps.len() - 1, ms));
                }
                2 => {
                    p.simple("BEGIN".into());
                    let ms = rng.range(80, 700);
                    let s = p.select(1, 0, &format!(", sim_sleep({})", ms));
                    p.simple(s);
                    sleeps.push((id, p.steps.len() - 1, ms));
                    if rng.chance(0.5) {
                        p.think(rng.range(0, 60));
                        let s = p.select(1, 0, "");
                        p.simple(s);
                    }
                    p.simple(if rng.chance(0.8) { "COMMIT" } else { "ROLLBACK" }.into());
                }
                _ => {
                    // extended protocol with a sleeping Execute
                    let ms = rng.range(80, 500);
                    let tag = p.tag();
                    let sql = format!("SELECT '{}', sim_sleep({})", tag, ms);
                    p.send(vec![
                        FrontMsg::P { name: String::new(), sql, types: vec![] },
                        FrontMsg::B { portal: String::new(), stmt: String::new(), fmt: vec![], params: vec![], rfmt: vec![], binary_hex: false },
                        FrontMsg::E { portal: String::new(), max: 0 },
                        FrontMsg::S,
                    ]);
                    sleeps.push((id, p.steps.len() - 1, ms));
                }
            }
            txn_ends.push((id, p.steps.len() - 1));
        }
        if leaves_in_txn {
            p.steps.push(Step::Drop { abort: rng.chance(0.5) });
            leavers.push(id);
        } else if rng.chance(0.7) {
            p.steps.push(Step::Terminate);
        } else {
            p.steps.push(Step::Drop { abort: false });
        }
        let mut c = client(id, "app", "db", "apppw", rng.range(0, 150), p.steps);
        c.role = "worker".into();
        clients.push(c);
    }
    // a late victim: starts a long statement after everybody else has been at work for a while
    let victim = nrun + 1;
    {
        let mut p = Prog::new(victim);
        for _ in 0..rng.range(1, 3) {
            p.new_txn();
            let s = p.select(1, 0, &format!(", sim_sleep({})", rng.range(300, 1200)));
            p.simple(s);
            p.think(rng.range(0, 50));
        }
        p.steps.push(Step::Terminate);
        let mut c = client(victim, "app", "db", "apppw", rng.range(100, 900), p.steps);
        c.role = "canary".into();
        clients.push(c);
    }
    // cancellers
    let ncanc = rng.range(1, if thorough { 4 } else { 3 }) as u32;
    for k in 0..ncanc {
        let id = 100 + k;
        let mut steps = Vec::new();
        for _ in 0..rng.range(1, 4) {
            let mode = rng.below(10);
            let (ev, delay, target, key): (Option<String>, u64, u32, &str) = match mode {
                // while the target's statement runs
                0..=2 if !sleeps.is_empty() => {
                    let (c, s, ms) = *rng.pick(&sleeps);
                    (Some(format!("c{}.s{}.sent", c, s)), rng.range(0, ms.saturating_sub(20).max(1)), c, "target")
                }
                // same moment, wrong key material
                3 if !sleeps.is_empty() => {
                    let (c, s, ms) = *rng.pick(&sleeps);
                    (Some(format!("c{}.s{}.sent", c, s)), rng.range(0, ms / 2), c, *rng.pick(&["wrongsecret", "wrongpid", "random"]))
                }
                // right after / well after the end of a transaction
                4..=6 if !txn_ends.is_empty() => {
                    let (c, s) = *rng.pick(&txn_ends);
                    let d = if rng.chance(0.4) { rng.range(0, 3) } else { rng.range(150, 600) };
                    (Some(format!("c{}.s{}.done", c, s)), d, c, "target")
                }
                // while the target sits connected but has lost its server to the idle timeout
                7 if !idle_losers.is_empty() => {
                    let (c, sidx) = *rng.pick(&idle_losers);
                    (Some(format!("c{}.s{}.done", c, sidx)), rng.range(100, 500), c, "target")
                }
                // after the target left (inside a transaction, if there is such a client)
                7 | 8 => {
                    let c = if !leavers.is_empty() { *rng.pick(&leavers) } else { rng.range(1, nrun as u64) as u32 };
                    (Some(format!("c{}.done", c)), if rng.chance(0.3) { rng.range(0, 3) } else { rng.range(150, 800) }, c, "target")
                }
                _ => (None, rng.range(0, 1500), rng.range(1, victim as u64) as u32, *rng.pick(&["target", "target", "random", "wrongsecret"])),
            };
            if let Some(ev) = ev {
                steps.push(Step::Wait { ev });
            }
            steps.push(Step::Think { ms: delay });
            steps.push(Step::Cancel { target, key: key.to_string() });
        }
        steps.push(Step::Terminate);
        let mut c = client(id, "app", "db", "apppw", 0, steps);
        c.role = "canceller".into();
        clients.push(c);
    }
    let net = if rng.chance(0.4) { net_calm() } else { NetSpec { latency_ms: (0, *rng.pick(&[0u64, 1, 3])), jitter_ms: *rng.pick(&[0u64, 0, 1]), ..net_swarm(rng) } };
    let mut spec = Spec { config_toml: cfg.render(), hosts: cfg.hosts(), net, clients, end: EndSpec { deadline_ms: 900_000, calm_ms: 50 }, ..Default::default() };
    for site in ["client.after_claim", "client.before_release", "client.before_get"] {
        if rng.chance(0.3) {
            spec.yield_sites.push((site.to_string(), rng.range(1, 4) as u32));
        }
    }
    spec.params = params_from(&cfg);
    spec.params.insert("idle_timeout_ms".into(), serde_json::json!(idle_timeout));
    spec.family = format!("cancel/{}/pool{}/rep{}{}", if session { "session" } else { "transaction" }, pool_size, replicas, if idle_timeout > 0 { "/idle_timeout" } else { "" });
    spec.oracles = vec!["c10_cancel".into(), "liveness".into(), "no_panic".into()];
    spec
}

// ------------------------------------------------------------------------------------------
// C11: hostile bytes
// ------------------------------------------------------------------------------------------

fn frame(ty: u8, declared_len: i32, body: &[u8]) -> Vec<u8> {
    let mut v = vec![ty];
    v.extend_from_slice(&declared_len.to_be_bytes());
    v.extend_from_slice(body);
    v
}

fn well_framed(ty: u8, body: &[u8]) -> Vec<u8> {
    frame(ty, body.len() as i32 + 4, body)
}

fn cs(s: &str) -> Vec<u8> {
    let mut v = s.as_bytes().to_vec();
    v.push(0);
    v
}

/// Lengths that make a decoder allocate before any payload arrives; the low bits name the site so
/// that the allocation seam can say which read path asked for the memory.
pub const HUGE_STARTUP: i32 = 0x7fff_f004;
pub const HUGE_PASSWORD: i32 = 0x7fff_e004;
pub const HUGE_FRAME: i32 = 0x7fff_d004;
pub const HUGE_ADMIN_FRAME: i32 = 0x7fff_c004;

pub const C11_SHARED_TEXT: &str = "SELECT 'shared-c11', $1";

/// One hostile post-authentication payload: (class name, bytes).
fn hostile_payload(rng: &mut Rng, tag: &str, allow_huge: bool) -> (String, Vec<u8>) {
    let valid_q = proto::query(&format!("SELECT '{}'", tag)).bytes();
    let kinds = [
        "len_zero", "len_three", "len_negative", "len_short_of_body", "len_beyond_body_then_close", "unknown_type", "type_nul", "backend_type",
        "q_no_nul", "q_empty", "q_invalid_utf8", "q_long", "p_no_nul", "p_name_only", "p_param_count_negative", "p_param_count_huge", "b_no_nul", "b_counts_huge",
        "b_param_len_negative", "b_param_len_beyond", "b_unknown_stmt", "d_bad_kind", "d_empty", "d_unknown", "c_bad_kind", "c_empty", "c_no_nul", "e_no_nul", "e_without_bind",
        "sync_alone", "flush_alone", "copydata_outside_copy", "copydone_outside_copy", "copyfail_outside_copy", "password_msg", "function_call", "terminate_then_more",
        "random_bytes", "half_frame_then_close", "parse_without_sync_then_close", "bind_name_invalid_utf8", "huge_len",
        "b_portal_invalid_utf8", "b_portal_invalid_utf8", "q_error_echo_non_utf8", "q_error_echo_non_utf8", "p_poison_shared_text", "p_poison_shared_text", "p_trailing_query", "p_fewer_types_than_announced", "b_trailing_query", "d_trailing_query", "c_trailing_query", "mutated_batch", "mutated_batch", "mutated_batch",
    ];
    let mut k = *rng.pick(&kinds);
    if k == "huge_len" && !allow_huge {
        k = "len_negative";
    }
    let bytes: Vec<u8> = match k {
        "len_zero" => frame(b'Q', 0, b""),
        "len_three" => frame(b'Q', 3, b""),
        "len_negative" => frame(*rng.pick(&[b'Q', b'P', b'B', b'X', b'd']), *rng.pick(&[-1i32, -2, -5, i32::MIN, -2147483644]), b"abc"),
        "len_short_of_body" => {
            // the declared length ends inside the body: the rest is read as the next message
            let mut v = frame(b'Q', 4 + 5, b"SELEC");
            v.extend_from_slice(b"T 1\0");
            v
        }
        "len_beyond_body_then_close" => frame(b'Q', 4 + 200, b"SELECT 1\0"),
        "unknown_type" => well_framed(*rng.pick(&[b'!', b'~', b'z', b'A', b'0', 0xff, 0x80]), b"junk\0"),
        "type_nul" => well_framed(0, b""),
        "backend_type" => well_framed(*rng.pick(&[b'Z', b'T', b'1', b'R', b'K', b'E', b'N']), b"I"),
        "q_no_nul" => well_framed(b'Q', b"SELECT 1"),
        "q_empty" => well_framed(b'Q', b""),
        "q_invalid_utf8" => well_framed(b'Q', b"SELECT '\xff\xfe\xc3\x28'\0"),
        "q_error_echo_non_utf8" => proto::query(&format!("SELECT '{}', sim_error_nonutf8()", tag)).bytes(),
        "q_long" => {
            let mut b = b"SELECT '".to_vec();
            b.extend(std::iter::repeat(b'x').take(rng.range(9000, 70000) as usize));
            b.extend_from_slice(b"'\0");
            well_framed(b'Q', &b)
        }
        "p_no_nul" => well_framed(b'P', b"s1"),
        "p_name_only" => well_framed(b'P', b"s1\0"),
        "p_param_count_negative" => {
            let mut b = cs("s1");
            b.extend(cs("SELECT 1"));
            b.extend_from_slice(&(-1i16).to_be_bytes());
            well_framed(b'P', &b)
        }
        "p_param_count_huge" => {
            let mut b = cs("s1");
            b.extend(cs("SELECT $1"));
            b.extend_from_slice(&(0x7fffi16).to_be_bytes());
            b.extend_from_slice(&23i32.to_be_bytes());
            well_framed(b'P', &b)
        }
        "b_no_nul" => well_framed(b'B', b"portal"),
        "b_counts_huge" => {
            let mut b = cs("");
            b.extend(cs(""));
            b.extend_from_slice(&(0x7fffi16).to_be_bytes());
            well_framed(b'B', &b)
        }
        "b_param_len_negative" => {
            let mut b = cs("");
            b.extend(cs(""));
            b.extend_from_slice(&0i16.to_be_bytes());
            b.extend_from_slice(&1i16.to_be_bytes());
            b.extend_from_slice(&(*rng.pick(&[-2i32, -100, i32::MIN])).to_be_bytes());
            b.extend_from_slice(&0i16.to_be_bytes());
            well_framed(b'B', &b)
        }
        "b_param_len_beyond" => {
            let mut b = cs("");
            b.extend(cs(""));
            b.extend_from_slice(&0i16.to_be_bytes());
            b.extend_from_slice(&1i16.to_be_bytes());
            b.extend_from_slice(&(*rng.pick(&[100i32, 0x7fffffff, 65536])).to_be_bytes());
            b.extend_from_slice(b"ab");
            well_framed(b'B', &b)
        }
        "b_unknown_stmt" => {
            let mut v = proto::bind("", "never_parsed", &[], &[], &[]).bytes();
            v.extend(proto::execute("", 0).bytes());
            v.extend(proto::sync().bytes());
            v
        }
        "d_bad_kind" => well_framed(b'D', b"Xs1\0"),
        "d_empty" => well_framed(b'D', b""),
        "d_unknown" => {
            let mut v = well_framed(b'D', b"Snever_parsed\0");
            v.extend(proto::sync().bytes());
            v
        }
        "c_bad_kind" => well_framed(b'C', b"Zs1\0"),
        "c_empty" => well_framed(b'C', b""),
        "c_no_nul" => well_framed(b'C', b"Ss1"),
        "e_no_nul" => well_framed(b'E', b"portal"),
        "e_without_bind" => {
            let mut v = proto::execute("nope", 0).bytes();
            v.extend(proto::sync().bytes());
            v
        }
        "sync_alone" => proto::sync().bytes(),
        "flush_alone" => well_framed(b'H', b""),
        "copydata_outside_copy" => well_framed(b'd', b"1\t2\n"),
        "copydone_outside_copy" => well_framed(b'c', b""),
        "copyfail_outside_copy" => well_framed(b'f', b"nope\0"),
        "password_msg" => well_framed(b'p', b"md5deadbeefdeadbeefdeadbeefdeadbeef\0"),
        "function_call" => well_framed(b'F', &[0, 0, 0, 1, 0, 0, 0, 0, 0, 0]),
        "terminate_then_more" => {
            let mut v = well_framed(b'X', b"");
            v.extend_from_slice(&valid_q);
            v
        }
        "random_bytes" => {
            let mut v = vec![0u8; rng.range(1, 300) as usize];
            rng.fill(&mut v);
            v
        }
        "half_frame_then_close" => {
            let cut = rng.range(1, valid_q.len() as u64 - 1) as usize;
            valid_q[..cut].to_vec()
        }
        "parse_without_sync_then_close" => proto::parse("s9", &format!("SELECT '{}'", tag), &[]).bytes(),
        "bind_name_invalid_utf8" => {
            let mut v = proto::parse("s1", &format!("SELECT '{}'", tag), &[]).bytes();
            let mut b = vec![0u8]; // portal ""
            b.extend_from_slice(b"\xff\xfes1\0");
            b.extend_from_slice(&0i16.to_be_bytes());
            b.extend_from_slice(&0i16.to_be_bytes());
            b.extend_from_slice(&0i16.to_be_bytes());
            v.extend(well_framed(b'B', &b));
            v.extend(proto::sync().bytes());
            v
        }
        "p_trailing_query" | "b_trailing_query" | "d_trailing_query" | "c_trailing_query" => {
            // a well-formed message followed, inside its frame, by a complete Query message
            // (padded to a multiple of four bytes): a decoder that re-encodes what it read must
            // not let the tail escape the frame
            let mut tail_sql = format!("SELECT '{}'", tag);
            while (tail_sql.len() + 1 + 5) % 4 != 0 {
                tail_sql.push(' ');
            }
            let tail = proto::query(&tail_sql).bytes();
            let mut v = Vec::new();
            let mut body = match k {
                "p_trailing_query" => {
                    let mut b = cs("h1");
                    b.extend(cs("SELECT 1"));
                    b.extend_from_slice(&0i16.to_be_bytes());
                    b
                }
                "b_trailing_query" => {
                    v.extend(proto::parse("h1", "SELECT 1", &[]).bytes());
                    proto::bind("", "h1", &[], &[], &[]).body
                }
                "d_trailing_query" => {
                    v.extend(proto::parse("h1", "SELECT 1", &[]).bytes());
                    proto::describe(b'S', "h1").body
                }
                _ => {
                    v.extend(proto::parse("h1", "SELECT 1", &[]).bytes());
                    proto::close(b'S', "h1").body
                }
            };
            body.extend_from_slice(&tail);
            let ty = match k { "p_trailing_query" => b'P', "b_trailing_query" => b'B', "d_trailing_query" => b'D', _ => b'C' };
            v.extend(well_framed(ty, &body));
            v.extend(proto::sync().bytes());
            v
        }
        "b_portal_invalid_utf8" => {
            // a Bind the pooler rewrites (known statement) whose portal or statement-related text is
            // not UTF-8: a length computed from a lossy string would come out too short
            let name = format!("u{}", rng.range(0, 9));
            let mut v = proto::parse(&name, &format!("SELECT '{}'", tag), &[]).bytes();
            let nbad = rng.range(1, 4) as usize;
            let mut b: Vec<u8> = std::iter::repeat(0xffu8).take(nbad).collect(); // portal
            b.push(b'p');
            b.push(0);
            b.extend(cs(&name));
            b.extend_from_slice(&0i16.to_be_bytes());
            b.extend_from_slice(&0i16.to_be_bytes());
            // result formats: free bytes at the very end of the message
            b.extend_from_slice(&2i16.to_be_bytes());
            b.extend_from_slice(&[0, 0, 0, 1]);
            v.extend(well_framed(b'B', &b));
            let mut e: Vec<u8> = std::iter::repeat(0xffu8).take(nbad).collect();
            e.push(b'p');
            e.push(0);
            e.extend_from_slice(&0i32.to_be_bytes());
            v.extend(well_framed(b'E', &e));
            v.extend(proto::sync().bytes());
            v
        }
        "p_poison_shared_text" => {
            // a statement everybody uses, with an impossible parameter count
            let mut b = cs(&format!("px{}", rng.range(0, 9)));
            b.extend(cs(C11_SHARED_TEXT));
            b.extend_from_slice(&(*rng.pick(&[-1i16, -2, i16::MIN])).to_be_bytes());
            let mut v = well_framed(b'P', &b);
            v.extend(proto::sync().bytes());
            v
        }
        "p_fewer_types_than_announced" => {
            let mut b = cs("h2");
            b.extend(cs("SELECT $1, $2"));
            b.extend_from_slice(&(*rng.pick(&[2i16, 3, 8])).to_be_bytes());
            b.extend_from_slice(&23i32.to_be_bytes());
            let mut v = well_framed(b'P', &b);
            v.extend(proto::sync().bytes());
            v
        }
        "mutated_batch" => {
            // a valid extended-protocol batch with a few PRNG edits (flip, insert, delete,
            // overwrite a length or count field)
            // no tag here: edits could turn it into somebody else's
            let sql = "SELECT 'mutated', $1".to_string();
            let mut v = Vec::new();
            v.extend(proto::parse("m1", &sql, &[25]).bytes());
            v.extend(proto::describe(b'S', "m1").bytes());
            v.extend(proto::bind("", "m1", &[0], &[Some(b"x".to_vec())], &[0]).bytes());
            v.extend(proto::execute("", 0).bytes());
            if rng.chance(0.5) {
                v.extend(proto::close(b'S', "m1").bytes());
            }
            v.extend(proto::sync().bytes());
            for _ in 0..rng.range(1, 3) {
                let i = rng.below(v.len() as u64) as usize;
                match rng.below(5) {
                    0 => v[i] ^= 1 << rng.below(8),
                    1 => v.insert(i, rng.below(256) as u8),
                    2 => {
                        v.remove(i);
                    }
                    3 => v[i] = *rng.pick(&[0u8, 0xff, 0x7f, 0x80]),
                    _ => {
                        let n = rng.range(1, 8) as usize;
                        for _ in 0..n {
                            v.insert(i, 0);
                        }
                    }
                }
            }
            v
        }
        _ => frame(*rng.pick(&[b'Q', b'P', b'd', b'B']), HUGE_FRAME, b"SELECT 1\0"),
    };
    // most malformed extended-protocol messages are followed by a Sync, so that the pooler acts on them
    let mut bytes = bytes;
    if (k.starts_with("p_") || k.starts_with("b_") || k.starts_with("d_") || k.starts_with("c_") || k.starts_with("e_")) && !k.ends_with("_query") && k != "p_fewer_types_than_announced" && rng.chance(0.6) {
        bytes.extend(proto::sync().bytes());
    }
    (k.to_string(), bytes)
}

fn hostile_startup(rng: &mut Rng, allow_huge: bool) -> (String, Vec<u8>) {
    let kinds = ["len_zero", "len_three", "len_four", "len_seven", "len_negative", "unknown_code", "truncated", "no_user", "no_terminator", "invalid_utf8", "only_keys", "huge_len", "proto_v2", "gssenc", "random"];
    let mut k = *rng.pick(&kinds);
    if k == "huge_len" && !allow_huge {
        k = "len_negative";
    }
    let good = proto::startup_packet(&[("user".into(), "app".into()), ("database".into(), "db".into())]);
    let mut with_len = |len: i32, rest: &[u8]| -> Vec<u8> {
        let mut v = len.to_be_bytes().to_vec();
        v.extend_from_slice(rest);
        v
    };
    let v3 = 196608i32.to_be_bytes();
    let bytes = match k {
        "len_zero" => with_len(0, b""),
        "len_three" => with_len(3, b""),
        "len_four" => with_len(4, b""),
        "len_seven" => with_len(7, &v3[..3]),
        "len_negative" => with_len(*rng.pick(&[-1i32, -4, i32::MIN]), &v3),
        "unknown_code" => with_len(8, &(*rng.pick(&[0i32, 1, 80877104, 12345678, -1])).to_be_bytes()),
        "truncated" => good[..rng.range(1, good.len() as u64 - 1) as usize].to_vec(),
        "no_user" => proto::startup_packet(&[("database".into(), "db".into())]),
        "no_terminator" => {
            let mut b = v3.to_vec();
            b.extend_from_slice(b"user\0app\0database\0db");
            with_len(b.len() as i32 + 4, &b)
        }
        "invalid_utf8" => {
            let mut b = v3.to_vec();
            b.extend_from_slice(b"user\0\xff\xfe\0database\0db\0\0");
            with_len(b.len() as i32 + 4, &b)
        }
        "only_keys" => {
            let mut b = v3.to_vec();
            b.extend_from_slice(b"user\0app\0database\0\0");
            with_len(b.len() as i32 + 4, &b)
        }
        "huge_len" => with_len(HUGE_STARTUP, &v3),
        "proto_v2" => with_len(8, &131072i32.to_be_bytes()),
        "gssenc" => with_len(8, &80877104i32.to_be_bytes()),
        _ => {
            let mut v = vec![0u8; rng.range(1, 64) as usize];
            rng.fill(&mut v);
            v
        }
    };
    (k.to_string(), bytes)
}

/// C11: canaries sharing a small pool with attackers that send hostile bytes at every protocol
/// state (before the startup packet, in place of the password, after authentication outside and
/// inside a transaction, inside COPY, on the admin console), with the statement cache and the
/// query parser on or off. Canaries only issue statements that cannot fail.
pub fn c11(rng: &mut Rng, thorough: bool, idx: u64) -> Spec {
    let session = rng.chance(0.15);
    let pool_size = if rng.chance(0.7) { 1 } else { 2 };
    let mut cfg = single_pool(if session { "session" } else { "transaction" }, pool_size, 0);
    cfg.set("connect_timeout", 60000);
    cfg.set("ban_time", 60);
    cfg.set("idle_client_in_transaction_timeout", 0);
    let cache_on = rng.chance(0.5);
    if cache_on {
        cfg.pools[0].cache_size = *rng.pick(&[1usize, 8]);
    }
    let parser_on = rng.chance(0.4);
    cfg.pools[0].query_parser_enabled = parser_on;
    // the memory limit of the deployment; huge declared lengths only in every other run so that
    // the other payload classes are judged on their own
    let allow_huge = idx % 2 == 1;
    let mut clients = Vec::new();
    let ncan = rng.range(1, 2) as u32;
    for id in 1..=ncan {
        let mut p = Prog::new(id);
        let n = rng.range(4, if thorough { 14 } else { 9 });
        super::control::worker_prog(&mut p, rng, n, (5, 120), !cache_on);
        if cache_on {
            // statements whose text is shared with everybody (also with an attacker): the pool-wide
            // statement cache is keyed by it; attribution is by the bound parameter
            for _ in 0..rng.range(1, 3) {
                p.new_txn();
                let t = p.tag();
                let at = rng.below(p.steps.len() as u64 + 1) as usize;
                let step = Step::Send {
                    msgs: vec![
                        FrontMsg::P { name: String::new(), sql: C11_SHARED_TEXT.into(), types: vec![] },
                        FrontMsg::B { portal: String::new(), stmt: String::new(), fmt: vec![], params: vec![Some(t)], rfmt: vec![], binary_hex: false },
                        FrontMsg::E { portal: String::new(), max: 0 },
                        FrontMsg::S,
                    ],
                    rfq: None,
                    cut: None,
                    abort: false,
                    txn: p.t,
                };
                // only between whole transactions: after a step that is not inside BEGIN..COMMIT
                let _ = at;
                p.steps.push(step);
                p.think(rng.range(5, 60));
            }
        }
        p.steps.push(Step::Terminate);
        let mut c = client(id, "app", "db", "apppw", rng.range(0, 40), p.steps);
        c.role = "canary".into();
        c.patience_ms = 20_000;
        clients.push(c);
    }
    // admin canary
    let mut a = admin_client(50, "main", When::AtMs { ms: rng.range(0, 300) }, &["SHOW POOLS", "SHOW CLIENTS"]);
    a.steps.insert(1, Step::Think { ms: rng.range(100, 900) });
    a.patience_ms = 20_000;
    clients.push(a);
    // attackers
    let natt = rng.range(1, if thorough { 5 } else { 3 }) as u32;
    let mut kinds = serde_json::Map::new();
    for k in 0..natt {
        let id = 100 + k;
        let mut p = Prog::new(id);
        let stage = *rng.pick(&["startup", "password", "post_auth", "post_auth", "post_auth", "in_txn", "in_txn", "in_copy", "admin", "after_parse"]);
        let mut c = client(id, "app", "db", "apppw", rng.range(0, 900), vec![]);
        c.role = "attacker".into();
        c.patience_ms = 1500;
        let mut label = String::new();
        match stage {
            "startup" => {
                let (k, b) = hostile_startup(rng, allow_huge);
                c.raw_startup = Some(proto::hex(&b));
                if rng.chance(0.3) {
                    c.ssl_probe = true;
                }
                label = format!("startup/{}", k);
            }
            "password" => {
                c.auth = rng.pick(&["othermsg", "oversized", "truncated", "eof", if allow_huge { "hugelen" } else { "none" }]).to_string();
                if rng.chance(0.3) {
                    c.user = "admin".into();
                    c.database = "pgcat".into();
                    c.password = Some("adminpw".into());
                }
                label = format!("password/{}", c.auth);
            }
            "admin" => {
                c.user = "admin".into();
                c.database = "pgcat".into();
                c.password = Some("adminpw".into());
                let (k, mut b) = hostile_payload(rng, "c0.t0.s0", false);
                if allow_huge && rng.chance(0.2) {
                    b = frame(b'Q', HUGE_ADMIN_FRAME, b"SHOW");
                    label = "admin/huge_len".into();
                } else {
                    label = format!("admin/{}", k);
                }
                p.steps.push(Step::Raw { hex: proto::hex(&b), read_ms: rng.range(20, 200) });
            }
            _ => {
                if stage == "in_txn" {
                    p.new_txn();
                    let t = p.tag();
                    p.simple(format!("BEGIN /* {} */", t));
                    let s = p.select(1, 0, "");
                    p.simple(s);
                    if rng.chance(0.3) {
                        let t = p.tag();
                        p.simple(format!("SET statement_timeout TO 12345 /* {} */", t));
                    }
                } else if stage == "in_copy" {
                    p.new_txn();
                    let t = p.tag();
                    let mut b = proto::query(&format!("COPY t FROM STDIN /* {} */", t)).bytes();
                    b.extend(proto::copy_data(b"1\t2\n").bytes());
                    p.steps.push(Step::Raw { hex: proto::hex(&b), read_ms: rng.range(20, 80) });
                } else if stage == "after_parse" {
                    p.new_txn();
                    let t = p.tag();
                    p.send(vec![FrontMsg::P { name: "s1".into(), sql: format!("SELECT '{}'", t), types: vec![] }, FrontMsg::S]);
                }
                let n = rng.range(1, 3);
                let mut ks = Vec::new();
                for _ in 0..n {
                    p.new_txn();
                    let t = p.tag();
                    let (k, b) = hostile_payload(rng, &t, allow_huge);
                    ks.push(k);
                    p.steps.push(Step::Raw { hex: proto::hex(&b), read_ms: rng.range(5, 150) });
                }
                label = format!("{}/{}", stage, ks.join("+"));
            }
        }
        // whatever happened, try a normal query, then leave (never hold anything for long)
        if rng.chance(0.5) {
            p.new_txn();
            let s = p.select(1, 0, "");
            p.simple(s);
        }
        p.steps.push(Step::Drop { abort: rng.chance(0.3) });
        c.steps = p.steps;
        kinds.insert(id.to_string(), serde_json::json!(label));
        clients.push(c);
    }
    // final phase: everything still works
    let mut p = Prog::new(90);
    super::control::worker_prog(&mut p, rng, 3, (1, 10), !cache_on);
    p.steps.push(Step::Terminate);
    let mut probe = client(90, "app", "db", "apppw", 0, p.steps);
    probe.phase = "final".into();
    probe.role = "probe".into();
    probe.patience_ms = 20_000;
    clients.push(probe);
    let mut fa = admin_client(91, "final", When::AtMs { ms: 0 }, &["SHOW POOLS", "SHOW SERVERS"]);
    fa.patience_ms = 20_000;
    clients.push(fa);

    let net = if rng.chance(0.4) { net_calm() } else { NetSpec { latency_ms: (0, *rng.pick(&[0u64, 1, 3])), ..net_swarm(rng) } };
    let mut spec = Spec { config_toml: cfg.render(), hosts: cfg.hosts(), net, clients, end: EndSpec { deadline_ms: 900_000, calm_ms: 200 }, ..Default::default() };
    spec.params = params_from(&cfg);
    spec.params.insert("cache_on".into(), serde_json::json!(cache_on));
    spec.params.insert("c11_kinds".into(), serde_json::Value::Object(kinds));
    spec.params.insert("mem_limit_mb".into(), serde_json::json!(1024));
    spec.family = format!("hostile/{}{}{}{}", if session { "session" } else { "transaction" }, if cache_on { "/cache" } else { "" }, if parser_on { "/parser" } else { "" }, if allow_huge { "/huge_lengths" } else { "" });
    spec.oracles = vec!["c11_hostile".into(), "liveness".into()];
    spec
}
