//! Scenario generation: seed -> Spec (pure). Each property has a family: a restriction of the
//! scenario space that makes the property's situations frequent. Everything is varied per run
//! (swarm style): topology, pool sizes, modes, timeouts, network knobs, workload mix, faults.

use crate::spec::*;
use simcore::rng::Rng;
use std::collections::BTreeMap;

pub mod base;
pub mod cache;
pub mod cfg;
pub mod config;
pub mod control;
pub mod mirror;
pub mod router;
pub mod routing;
pub mod security;

pub use cfg::*;

/// Build the spec for run number `idx` of a check.
pub fn generate(property: &str, tier: &str, seed: u64, idx: u64) -> Spec {
    let run_seed = Rng::stream_of(seed, &format!("{}/{}/{}", property, tier, idx)).next_u64() | 1;
    let mut rng = Rng::stream_of(run_seed, "gen");
    let thorough = tier == "thorough";
    let mut spec = match property {
        "C01" => base::c01(&mut rng, thorough, idx),
        "C02" => base::c02(&mut rng, thorough, idx),
        "C03" => {
            if idx % 4 == 3 {
                cache::c03_cache(&mut rng, thorough)
            } else {
                base::c03(&mut rng, thorough, idx)
            }
        }
        "C08" => cache::c08(&mut rng, thorough, idx),
        "C16" => control::c16(&mut rng, thorough, idx),
        "C17" => control::c17(&mut rng, thorough, idx),
        "C14" => control::c14(&mut rng, thorough, idx),
        "C18" => control::c18(&mut rng, thorough, idx),
        "C09" => security::c09(&mut rng, thorough, idx),
        "C10" => security::c10(&mut rng, thorough, idx),
        "C11" => security::c11(&mut rng, thorough, idx),
        "C13" => router::c13(&mut rng, thorough, idx),
        "C06" => router::c06(&mut rng, thorough, idx),
        "C05" => router::c05(&mut rng, thorough, idx),
        "C19" => router::c19(&mut rng, thorough, idx),
        "C20" => mirror::c20(&mut rng, thorough, idx),
        "C15" => config::c15(&mut rng, thorough, idx),
        "C07" => routing::c07(&mut rng, thorough, idx),
        "C04" => base::c04(&mut rng, thorough, idx),
        "C12" => base::c12(&mut rng, thorough, idx),
        "SELFTEST" => {
            let props = ["C01", "C02", "C03", "C04", "C12", "C08", "C16", "C07", "C17", "C14", "C18", "C09", "C10", "C11", "C13", "C06", "C05", "C19", "C20", "C15"];
            let p = props[(idx % props.len() as u64) as usize];
            return generate(p, tier, seed ^ 0x5e1f, idx / props.len() as u64);
        }
        other => panic!("no generator for {}", other),
    };
    spec.format = 1;
    spec.property = property.to_string();
    spec.seed = run_seed;
    spec
}

/// Network knobs drawn per run.
pub fn net_swarm(rng: &mut Rng) -> NetSpec {
    let lat_hi = *rng.pick(&[0u64, 0, 1, 3, 10]);
    NetSpec {
        latency_ms: (0, lat_hi),
        jitter_ms: *rng.pick(&[0u64, 0, 1, 4]),
        sndbuf: *rng.pick(&[64usize, 512, 4096, 65536, 262144, 262144]),
        seg: rng.pick(&["whole", "whole", "mixed", "mixed", "dribble"]).to_string(),
        short_reads: rng.chance(0.6),
        chaos: *rng.pick(&[0.0, 0.0, 0.05, 0.15, 0.3]),
    }
}

pub fn net_calm() -> NetSpec {
    NetSpec::default()
}

/// Allocates unique tags for a client's program.
pub struct Prog {
    pub id: u32,
    pub t: u32,
    pub s: u32,
    pub steps: Vec<Step>,
}

impl Prog {
    pub fn new(id: u32) -> Prog {
        Prog { id, t: 0, s: 0, steps: Vec::new() }
    }
    pub fn new_txn(&mut self) -> u32 {
        self.t += 1;
        self.s = 0;
        self.t
    }
    pub fn tag(&mut self) -> String {
        self.s += 1;
        format!("c{}.t{}.s{}", self.id, self.t, self.s)
    }
    pub fn simple(&mut self, sql: String) {
        let t = self.t;
        self.steps.push(Step::Send { msgs: vec![FrontMsg::Q { sql }], rfq: None, cut: None, abort: false, txn: t });
    }
    pub fn send(&mut self, msgs: Vec<FrontMsg>) {
        let t = self.t;
        self.steps.push(Step::Send { msgs, rfq: None, cut: None, abort: false, txn: t });
    }
    pub fn think(&mut self, ms: u64) {
        self.steps.push(Step::Think { ms });
    }
    /// `SELECT '<tag>', sim_rows(n), sim_pad(p)`
    pub fn select(&mut self, rows: u64, pad: u64, extra: &str) -> String {
        let tag = self.tag();
        let mut s = format!("SELECT '{}'", tag);
        if rows != 1 {
            s.push_str(&format!(", sim_rows({})", rows));
        }
        if pad > 0 {
            s.push_str(&format!(", sim_pad({})", pad));
        }
        s.push_str(extra);
        s
    }
}

pub fn client(id: u32, user: &str, db: &str, password: &str, start_ms: u64, steps: Vec<Step>) -> ClientSpec {
    ClientSpec {
        id,
        start: When::AtMs { ms: start_ms },
        phase: "main".into(),
        user: user.into(),
        database: db.into(),
        password: Some(password.into()),
        startup_params: vec![],
        auth: "correct".into(),
        ssl_probe: false,
        raw_startup: None,
        tls: false,
        steps,
        patience_ms: 600_000,
        role: "worker".into(),
    }
}

pub fn admin_client(id: u32, phase: &str, start: When, cmds: &[&str]) -> ClientSpec {
    let mut steps = Vec::new();
    for c in cmds {
        steps.push(Step::Send { msgs: vec![FrontMsg::Q { sql: c.to_string() }], rfq: None, cut: None, abort: false, txn: 0 });
    }
    steps.push(Step::Terminate);
    ClientSpec {
        id,
        start,
        phase: phase.into(),
        user: "admin".into(),
        database: "pgcat".into(),
        password: Some("adminpw".into()),
        startup_params: vec![],
        auth: "correct".into(),
        ssl_probe: false,
        raw_startup: None,
        tls: false,
        steps,
        patience_ms: 600_000,
        role: "admin".into(),
    }
}

pub fn params_from(cfg: &Cfg) -> BTreeMap<String, serde_json::Value> {
    let mut m = BTreeMap::new();
    m.insert("pools".to_string(), cfg.pool_params());
    m
}
