//! Families for the data-path properties: C01, C02, C03, C04, C12.

use super::*;

#[derive(Clone, Debug)]
pub struct Mix {
    pub explicit_txn: bool,
    pub failed_txn: bool,
    pub extended: bool,
    pub named: bool,
    pub pipelined: bool,
    pub copy: bool,
    pub multi_stmt: bool,
    pub big_replies: bool,
    pub think_in_txn: bool,
    pub notices: bool,
    pub portal_suspend: bool,
    /// CopyDone / CopyFail outside COPY (C01 only: the other families' oracles count units)
    pub stray_copy: bool,
    pub max_rows: u64,
}

impl Mix {
    pub fn all() -> Mix {
        Mix { explicit_txn: true, failed_txn: true, extended: true, named: true, pipelined: true, copy: true, multi_stmt: true, big_replies: true, think_in_txn: true, notices: true, portal_suspend: true, stray_copy: false, max_rows: 6 }
    }
    pub fn swarm(rng: &mut Rng) -> Mix {
        let mut m = Mix::all();
        // switch a random subset off so that runs differ in kind, not only in numbers
        if rng.chance(0.3) { m.explicit_txn = false; }
        if rng.chance(0.4) { m.failed_txn = false; }
        if rng.chance(0.3) { m.extended = false; }
        if rng.chance(0.4) { m.named = false; }
        if rng.chance(0.4) { m.pipelined = false; }
        if rng.chance(0.4) { m.copy = false; }
        if rng.chance(0.4) { m.multi_stmt = false; }
        if rng.chance(0.5) { m.big_replies = false; }
        if rng.chance(0.5) { m.think_in_txn = false; }
        if rng.chance(0.5) { m.notices = false; }
        if rng.chance(0.5) { m.portal_suspend = false; }
        m
    }
}

fn pad_choice(rng: &mut Rng, big: bool) -> u64 {
    if big && rng.chance(0.4) {
        // row sizes around PgCat's 8196-byte flush threshold (row overhead is ~40 bytes)
        *rng.pick(&[8100u64, 8150, 8155, 8156, 8157, 8160, 8196, 8200, 9000, 20000, 65536])
    } else {
        *rng.pick(&[0u64, 0, 0, 1, 10, 100, 1000])
    }
}

/// Extended-protocol batch running one statement; the step tag also travels as bind parameter 1.
pub fn ext_batch(p: &mut Prog, rng: &mut Rng, stmt_name: &str, sql_tail: &str, rows: u64, pad: u64, max_rows: i32, describe: bool, close: bool) -> Vec<FrontMsg> {
    let tag = p.tag();
    let mut sql = format!("SELECT '{}', $1", tag);
    if rows != 1 {
        sql.push_str(&format!(", sim_rows({})", rows));
    }
    if pad > 0 {
        sql.push_str(&format!(", sim_pad({})", pad));
    }
    sql.push_str(sql_tail);
    let mut msgs = vec![FrontMsg::P { name: stmt_name.into(), sql, types: if rng.chance(0.5) { vec![] } else { vec![25] } }];
    if describe && rng.chance(0.5) {
        msgs.push(FrontMsg::D { kind: "S".into(), name: stmt_name.into() });
    }
    msgs.push(FrontMsg::B { portal: "".into(), stmt: stmt_name.into(), fmt: vec![], params: vec![Some(tag.clone())], rfmt: vec![], binary_hex: false });
    if describe {
        msgs.push(FrontMsg::D { kind: "P".into(), name: "".into() });
    }
    msgs.push(FrontMsg::E { portal: "".into(), max: max_rows });
    if max_rows > 0 && rows as i32 > max_rows {
        // fetch the rest
        msgs.push(FrontMsg::E { portal: "".into(), max: 0 });
    }
    if close && !stmt_name.is_empty() {
        msgs.push(FrontMsg::C { kind: "S".into(), name: stmt_name.into() });
    }
    if rng.chance(0.15) {
        // drivers close the unnamed portal explicitly now and then
        msgs.push(FrontMsg::C { kind: "P".into(), name: String::new() });
    }
    msgs.push(FrontMsg::S);
    msgs
}

/// Append one transaction of a random kind to the program.
pub fn add_txn(p: &mut Prog, rng: &mut Rng, mix: &Mix, session_mode: bool) {
    p.new_txn();
    let mut kinds: Vec<&str> = vec!["auto", "auto"];
    if mix.explicit_txn { kinds.push("explicit"); kinds.push("explicit"); }
    if mix.failed_txn { kinds.push("failed"); kinds.push("mid_error"); if mix.copy { kinds.push("copy_out_error"); } }
    if mix.extended { kinds.push("ext"); kinds.push("ext_in_txn"); }
    if mix.named { kinds.push("ext_named"); }
    if mix.pipelined { kinds.push("pipe_q"); kinds.push("pipe_ext"); }
    if mix.copy { kinds.push("copy_in"); kinds.push("copy_out"); kinds.push("copy_fail"); if mix.stray_copy { kinds.push("stray_copy"); } }
    if mix.multi_stmt { kinds.push("multi"); }
    let _ = session_mode;
    let kind = *rng.pick(&kinds);
    let rows = rng.range(0, mix.max_rows);
    let pad = pad_choice(rng, mix.big_replies);
    let notice = if mix.notices && rng.chance(0.2) { ", sim_notice(2)" } else { "" };
    match kind {
        "auto" => {
            let sql = p.select(rows, pad, notice);
            p.simple(sql);
        }
        "mid_error" => {
            // ErrorResponse in the middle of a result set
            let t = p.tag();
            let n = rng.range(2, 6);
            p.simple(format!("SELECT '{}', sim_rows({}), sim_pad({}), sim_error_after({})", t, n, pad, rng.range(1, n - 1)));
        }
        "copy_out_error" => {
            let t = p.tag();
            let n = rng.range(2, 6);
            p.simple(format!("COPY t TO STDOUT /* {} sim_rows({}) sim_pad({}) sim_error_after({}) */", t, n, pad, rng.range(1, n - 1)));
            if rng.chance(0.6) {
                // stay connected and idle for a while afterwards
                p.think(rng.range(100, 1500));
            }
        }
        "multi" => {
            let a = p.select(rows, pad, "");
            let b = p.select(1, 0, notice);
            let c = if rng.chance(0.3) { format!("; {}", p.select(2, 0, "")) } else { String::new() };
            p.simple(format!("{}; {}{}", a, b, c));
        }
        "explicit" | "failed" => {
            let t = p.tag();
            p.simple(format!("BEGIN /* {} */", t));
            let n = rng.range(1, 3);
            for i in 0..n {
                if mix.think_in_txn && rng.chance(0.3) {
                    p.think(rng.range(1, 30));
                }
                if kind == "failed" && i == 0 {
                    let t = p.tag();
                    p.simple(format!("SELECT '{}', sim_error()", t));
                } else if rng.chance(0.3) {
                    let t = p.tag();
                    p.simple(format!("INSERT INTO t (k, v) VALUES (1, '{}')", t));
                } else if mix.extended && rng.chance(0.3) {
                    let m = { let d = rng.chance(0.5); ext_batch(p, rng, "", "", rows, pad, 0, d, false) };
                    p.send(m);
                } else {
                    let sql = p.select(rows, pad, notice);
                    p.simple(sql);
                }
            }
            let t = p.tag();
            if kind == "failed" || rng.chance(0.25) {
                p.simple(format!("ROLLBACK /* {} */", t));
            } else {
                p.simple(format!("COMMIT /* {} */", t));
            }
        }
        "ext" => {
            let max = if mix.portal_suspend && rows > 1 && rng.chance(0.4) { rng.range(1, rows - 1) as i32 } else { 0 };
            let m = { let d = rng.chance(0.5); ext_batch(p, rng, "", notice, rows, pad, max, d, false) };
            p.send(m);
        }
        "ext_in_txn" => {
            let t = p.tag();
            p.simple(format!("BEGIN /* {} */", t));
            let m = { let d = rng.chance(0.5); ext_batch(p, rng, "", "", rows, pad, 0, d, false) };
            p.send(m);
            if rng.chance(0.5) {
                let m = ext_batch(p, rng, "", "", 1, 0, 0, false, false);
                p.send(m);
            }
            let t = p.tag();
            p.simple(format!("COMMIT /* {} */", t));
        }
        "ext_named" => {
            // named statement, prepared and closed inside one batch (cache off: goes to the server)
            let name = format!("s{}", rng.range(1, 3));
            let m = { let d = rng.chance(0.5); ext_batch(p, rng, &name, "", rows, pad, 0, d, true) };
            p.send(m);
        }
        "pipe_q" => {
            // two pipelined simple queries are two transactions
            let a = p.select(rows, pad, "");
            p.new_txn();
            let b = p.select(1, 0, "");
            p.send(vec![FrontMsg::Q { sql: a }, FrontMsg::Q { sql: b }]);
        }
        "pipe_ext" => {
            // two pipelined Sync-terminated batches are two transactions
            let mut m = ext_batch(p, rng, "", "", rows, pad, 0, false, false);
            p.new_txn();
            m.extend(ext_batch(p, rng, "", "", 1, 0, 0, true, false));
            p.send(m);
        }
        "copy_in" | "copy_fail" => {
            let t = p.tag();
            let n = rng.range(0, 4) as usize;
            let chunks: Vec<usize> = (0..n).map(|_| *rng.pick(&[1usize, 10, 100, 4000, 8190, 8191, 8192, 8200, 20000])).collect();
            let txn = p.t;
            let mut sql = format!("COPY t FROM STDIN /* {} */", t);
            if mix.multi_stmt && rng.chance(0.3) {
                // the message goes on after the COPY: its results follow the copy's completion
                let t2 = p.tag();
                sql.push_str(&format!("; SELECT '{}', sim_rows({}), sim_pad({})", t2, rows.max(2), pad));
            }
            p.steps.push(Step::CopyIn { sql, chunks, fail: kind == "copy_fail", drop_after: None, txn });
        }
        "stray_copy" => {
            // CopyDone / CopyFail while no COPY is running: the server ignores it and sends
            // nothing; the client goes on with its session
            let raw = if rng.chance(0.5) { "6300000004".to_string() } else { "660000000873696d00".to_string() };
            p.steps.push(Step::Raw { hex: raw, read_ms: rng.range(2, 40) });
            let sql = p.select(rows, pad, "");
            p.simple(sql);
        }
        "copy_out" => {
            let t = p.tag();
            let mut sql = format!("COPY t TO STDOUT /* {} */", t);
            sql.push_str(&format!(" /* sim_rows({}) sim_pad({}) */", rows, pad));
            p.simple(sql);
        }
        _ => unreachable!(),
    }
}

pub struct BaseOpts {
    pub clients: (u64, u64),
    pub txns: (u64, u64),
    pub pool_size: (u64, u64),
    pub replicas: (u64, u64),
    pub session_mode_p: f64,
    pub parser_p: f64,
}

/// A pool, some clients with mixed programs, calm network or swarm network.
pub fn base_world(rng: &mut Rng, o: &BaseOpts, mix: &Mix, net: NetSpec) -> (Spec, Cfg) {
    let session = rng.chance(o.session_mode_p);
    let nclients = rng.range(o.clients.0, o.clients.1) as u32;
    let mut pool_size = rng.range(o.pool_size.0, o.pool_size.1) as u32;
    if session {
        // in session mode every connected client holds a server: keep enough capacity per server
        // or give clients a start offset so that they queue rather than time out
        pool_size = pool_size.max(1);
    }
    let replicas = rng.range(o.replicas.0, o.replicas.1) as usize;
    let mut cfg = single_pool(if session { "session" } else { "transaction" }, pool_size, replicas);
    cfg.set("connect_timeout", 60000);
    cfg.server_auth = rng.pick(&["md5", "trust"]).to_string();
    if rng.chance(0.5) {
        cfg.set("server_round_robin", "false");
    }
    if rng.chance(0.3) {
        cfg.pools[0].lb = "loc".into();
    }
    if rng.chance(0.3) {
        cfg.set("healthcheck_delay", 0);
    }
    if rng.chance(o.parser_p) {
        cfg.pools[0].query_parser_enabled = true;
    }
    // A stray CopyDone whose checkout fails is answered with an error and ReadyForQuery, which a
    // client that counts ReadyForQuery cannot tell from the reply to its next statement: no stray
    // copy messages where a checkout may have to wait for a whole session of somebody else.
    let mut mix_here = mix.clone();
    if session && pool_size < nclients {
        mix_here.stray_copy = false;
    }
    let mix = &mix_here;
    let mut clients = Vec::new();
    for i in 0..nclients {
        let id = i + 1;
        let mut p = Prog::new(id);
        let n = rng.range(o.txns.0, o.txns.1);
        for _ in 0..n {
            add_txn(&mut p, rng, mix, session);
            if rng.chance(0.3) {
                p.think(rng.range(1, 20));
            }
        }
        if rng.chance(0.7) {
            p.steps.push(Step::Terminate);
        } else {
            p.steps.push(Step::Drop { abort: rng.chance(0.3) });
        }
        let mut c = client(id, "app", "db", "apppw", rng.range(0, 20), p.steps);
        if session && pool_size < nclients {
            // queue politely
            c.patience_ms = 600_000;
        }
        clients.push(c);
    }
    let mut spec = Spec { config_toml: cfg.render(), hosts: cfg.hosts(), net, clients, end: EndSpec { deadline_ms: 900_000, calm_ms: 200 }, ..Default::default() };
    spec.params = params_from(&cfg);
    (spec, cfg)
}

fn add_final_probes(spec: &mut Spec, cfg: &Cfg, rng: &mut Rng) {
    // capacity probe: pool_size simultaneous transactions per server must all be served
    let size = cfg.pools[0].users[0].pool_size;
    // (Dead idle server connections left behind by server-side drops are flushed before this
    // phase by bb8's own reaper: fault runs use a short idle_timeout and a calm period longer
    // than idle_timeout + reaper period, which costs nothing in virtual time.)
    // first a look at the console with nobody connected: whatever is still marked in use now
    // would be healed (and hidden) by the capacity probes that follow
    let early = admin_client(989, "final", When::After { ev: "main_done".into(), delay_ms: 300 }, &["SHOW SERVERS", "SHOW POOLS"]);
    spec.clients.push(early);
    let warm_last = String::from("c989.done");
    let mut id = 900;
    for _ in 0..size {
        id += 1;
        let mut p = Prog::new(id);
        p.new_txn();
        let t = p.tag();
        p.simple(format!("BEGIN /* {} */", t));
        let t = p.tag();
        p.simple(format!("SELECT '{}', sim_sleep(40)", t));
        let t = p.tag();
        p.simple(format!("COMMIT /* {} */", t));
        p.steps.push(Step::Terminate);
        let mut c = client(id, "app", "db", "apppw", 0, p.steps);
        c.phase = "final".into();
        c.role = "probe".into();
        c.start = When::After { ev: warm_last.clone(), delay_ms: 5 };
        spec.clients.push(c);
    }
    let _ = rng;
    let a = admin_client(990, "final", When::After { ev: "c901.done".into(), delay_ms: 300 }, &["SHOW POOLS", "SHOW SERVERS", "SHOW CLIENTS"]);
    spec.clients.push(a);
}

pub fn c01(rng: &mut Rng, thorough: bool, idx: u64) -> Spec {
    let faults = idx % 3 == 2;
    let mut mix = Mix::swarm(rng);
    mix.stray_copy = rng.chance(0.5);
    let net = if rng.chance(0.2) { net_calm() } else { net_swarm(rng) };
    let o = BaseOpts { clients: (2, if thorough { 8 } else { 5 }), txns: (1, if thorough { 8 } else { 4 }), pool_size: (1, 3), replicas: (0, 2), session_mode_p: 0.3, parser_p: 0.3 };
    let (mut spec, cfg) = base_world(rng, &o, &mix, net);
    spec.family = if faults { "isolation+client_aborts".into() } else { "isolation".into() };
    if faults {
        inject_client_aborts(&mut spec, rng, 0.4);
        if rng.chance(0.5) {
            let host = rng.pick(&spec.hosts).addr.clone();
            spec.actions.push(ActionSpec { at: When::AtMs { ms: rng.range(5, 60) }, act: Action::HostBehaviour { host: host.clone(), b: format!("slow:{}", rng.range(1, 30)) } });
            spec.actions.push(ActionSpec { at: When::AtMs { ms: rng.range(80, 200) }, act: Action::HostBehaviour { host, b: "normal".into() } });
        }
    }
    let mut cfg = cfg;
    // (not together with stray copy messages: a checkout that fails for one of those is answered
    // with an error and ReadyForQuery, after which a client that counts ReadyForQuery attributes
    // every later reply to the wrong step)
    if idx % 3 == 1 && !mix.stray_copy && rng.chance(0.5) {
        // the server answers more slowly than the checkout health check waits, for a while:
        // its late replies must not reach anybody
        let hct = rng.range(15, 60);
        cfg.set("healthcheck_delay", 0);
        cfg.set("healthcheck_timeout", hct);
        cfg.set("ban_time", 1);
        spec.config_toml = cfg.render();
        let host = rng.pick(&spec.hosts).addr.clone();
        let from = rng.range(3, 60);
        spec.actions.push(ActionSpec { at: When::AtMs { ms: from }, act: Action::HostBehaviour { host: host.clone(), b: format!("slow:{}", hct + rng.range(10, 120)) } });
        spec.actions.push(ActionSpec { at: When::AtMs { ms: from + rng.range(hct, 6 * hct) }, act: Action::HostBehaviour { host, b: "normal".into() } });
        spec.family = "isolation+slow_health_check".into();
    }
    spec.oracles = vec!["c01_isolation".into(), "liveness".into()];
    spec
}

/// Turn some clients into aborters: cut a random step at a random byte, or drop mid-transaction.
pub fn inject_client_aborts(spec: &mut Spec, rng: &mut Rng, p: f64) {
    for c in spec.clients.iter_mut() {
        if c.role != "worker" || !rng.chance(p) {
            continue;
        }
        let sendable: Vec<usize> = c.steps.iter().enumerate().filter(|(_, s)| matches!(s, Step::Send { .. })).map(|(i, _)| i).collect();
        if sendable.is_empty() {
            continue;
        }
        let i = *rng.pick(&sendable);
        if rng.chance(0.5) {
            // cut inside the message
            if let Step::Send { msgs, cut, abort, .. } = &mut c.steps[i] {
                let total: usize = msgs.iter().map(|m| crate::sclient::encode(m).len()).sum();
                *cut = Some(rng.range(0, total as u64) as usize);
                *abort = rng.chance(0.3);
            }
            c.steps.truncate(i + 1);
        } else {
            // drop right after this step completed (possibly inside a transaction)
            c.steps.truncate(i + 1);
            c.steps.push(Step::Drop { abort: rng.chance(0.3) });
        }
        c.role = "worker".into();
    }
}

/// C03 sub-family: an extended-protocol batch that cannot get a server (the only connection is
/// held by somebody else for longer than connect_timeout) is answered by the pooler; the same
/// client's later batches reach the server as written, nothing of the refused one with them.
fn c03_refused_batch(rng: &mut Rng) -> Spec {
    let mut cfg = single_pool("transaction", 1, 0);
    cfg.set("connect_timeout", rng.range(100, 200));
    cfg.pools[0].cache_size = if rng.chance(0.3) { 8 } else { 0 };
    let mut holder = Prog::new(1);
    holder.new_txn();
    let t = holder.tag();
    holder.simple(format!("BEGIN /* {} */", t));
    let s = holder.select(1, 0, "");
    holder.simple(s);
    holder.think(rng.range(450, 900));
    let t = holder.tag();
    holder.simple(format!("COMMIT /* {} */", t));
    holder.steps.push(Step::Terminate);
    let mut p = Prog::new(2);
    for _ in 0..rng.range(1, 2) {
        p.new_txn();
        if rng.chance(0.8) {
            let m = { let d = rng.chance(0.5); ext_batch(&mut p, rng, "", "", 1, 0, 0, d, false) };
            p.send(m);
        } else {
            let s = p.select(1, 0, "");
            p.simple(s);
        }
    }
    p.steps.push(Step::Wait { ev: "c1.done".into() });
    p.think(rng.range(0, 20));
    for _ in 0..rng.range(1, 3) {
        p.new_txn();
        if rng.chance(0.7) {
            let rows = rng.range(0, 3);
            let m = { let d = rng.chance(0.5); ext_batch(&mut p, rng, "", "", rows, 0, 0, d, false) };
            p.send(m);
        } else {
            let s = p.select(2, 0, "");
            p.simple(s);
        }
    }
    p.steps.push(Step::Terminate);
    let mut b = client(2, "app", "db", "apppw", 0, p.steps);
    b.start = When::After { ev: "c1.s1.done".into(), delay_ms: rng.range(0, 20) };
    let clients = vec![client(1, "app", "db", "apppw", rng.range(0, 10), holder.steps), b];
    // (connect_timeout also bounds the login: no network on which a login takes that long)
    let mut net = net_swarm(rng);
    net.latency_ms.1 = net.latency_ms.1.min(1);
    net.jitter_ms = net.jitter_ms.min(1);
    net.sndbuf = net.sndbuf.max(4096);
    if net.seg == "dribble" {
        net.seg = "mixed".into();
    }
    let mut spec = Spec { config_toml: cfg.render(), hosts: cfg.hosts(), net, clients, end: EndSpec { deadline_ms: 900_000, calm_ms: 200 }, ..Default::default() };
    spec.params = params_from(&cfg);
    spec.params.insert("cache_on".into(), serde_json::json!(cfg.pools[0].cache_size > 0));
    spec.family = "relay/batch_refused_at_checkout".into();
    spec.params.insert("all_forwarded".into(), serde_json::json!(cfg.pools[0].cache_size == 0));
    spec.params.insert("all_tagged".into(), serde_json::json!(true));
    spec.oracles = vec!["c03_relay".into(), "liveness".into()];
    spec
}

/// C03 sub-family: a batch that ends in Flush; the client reads for a while, then sends Sync.
fn c03_flush(rng: &mut Rng) -> Spec {
    let mut cfg = single_pool(if rng.chance(0.3) { "session" } else { "transaction" }, rng.range(1, 2) as u32, 0);
    cfg.set("connect_timeout", 60000);
    let mut p = Prog::new(1);
    for _ in 0..rng.range(0, 2) {
        p.new_txn();
        let s = p.select(1, 0, "");
        p.simple(s);
    }
    p.new_txn();
    let rows = rng.range(1, 3);
    let mut m = ext_batch(&mut p, rng, "", "", rows, 0, 0, false, false);
    while !matches!(m.last(), Some(FrontMsg::E { .. })) {
        m.pop();
    }
    m.push(FrontMsg::H);
    let t = p.t;
    p.steps.push(Step::Send { msgs: m, rfq: Some(0), cut: None, abort: false, txn: t });
    p.steps.push(Step::Hold { until: None, max_ms: rng.range(100, 400) });
    p.send(vec![FrontMsg::S]);
    p.new_txn();
    let s = p.select(1, 0, "");
    p.simple(s);
    p.steps.push(Step::Terminate);
    let clients = vec![client(1, "app", "db", "apppw", rng.range(0, 10), p.steps)];
    let mut spec = Spec { config_toml: cfg.render(), hosts: cfg.hosts(), net: net_calm(), clients, end: EndSpec { deadline_ms: 900_000, calm_ms: 100 }, ..Default::default() };
    spec.params = params_from(&cfg);
    spec.family = "relay/flush".into();
    spec.oracles = vec!["c03_flush".into(), "liveness".into()];
    spec
}

pub fn c03(rng: &mut Rng, thorough: bool, idx: u64) -> Spec {
    if idx % 8 == 6 {
        return c03_refused_batch(rng);
    }
    if idx % 16 == 9 {
        return c03_flush(rng);
    }
    let mut mix = Mix::swarm(rng);
    mix.big_replies = rng.chance(0.8);
    mix.failed_txn = rng.chance(0.6);
    mix.max_rows = if thorough { 12 } else { 6 };
    let net = net_swarm(rng);
    let o = BaseOpts { clients: (1, if thorough { 4 } else { 3 }), txns: (1, if thorough { 8 } else { 5 }), pool_size: (1, 3), replicas: (0, 1), session_mode_p: 0.3, parser_p: 0.2 };
    let (mut spec, mut cfg) = base_world(rng, &o, &mix, net);
    spec.family = "relay".into();
    if idx % 5 == 2 {
        // "independent of ... TLS": the pooler offers TLS (the repository's test certificate) and
        // most clients take it; what they send and receive is compared in the clear as always
        cfg.set("tls_certificate", "\"/repo/.circleci/server.cert\"");
        cfg.set("tls_private_key", "\"/repo/.circleci/server.key\"");
        spec.config_toml = cfg.render();
        for c in spec.clients.iter_mut() {
            c.tls = rng.chance(0.75);
        }
        spec.family = "relay/tls".into();
    }
    spec.params.insert("all_forwarded".into(), serde_json::json!(true));
    spec.params.insert("all_tagged".into(), serde_json::json!(true));
    spec.oracles = vec!["c03_relay".into(), "liveness".into()];
    spec
}

/// C04 sub-family: every kind of transaction ending (success, server error, error in the middle
/// of a result set or of COPY OUT, CopyFail, failed block + ROLLBACK) followed by a long idle
/// period of the same client, while other clients need the (small) pool with a connect_timeout
/// shorter than the idle periods. A connection that is not released when the server reports the
/// transaction finished shows up as a refusal while capacity was free.
fn c04_idle_holders(rng: &mut Rng, thorough: bool) -> Spec {
    let pool_size = rng.range(1, 2) as u32;
    let mut cfg = single_pool("transaction", pool_size, 0);
    cfg.set("connect_timeout", rng.range(300, 700));
    if rng.chance(0.3) {
        cfg.set("healthcheck_delay", 0);
    }
    let mut clients = Vec::new();
    let nhold = rng.range(1, pool_size as u64 + 1) as u32;
    for i in 0..nhold {
        let id = i + 1;
        let mut p = Prog::new(id);
        let n = rng.range(1, if thorough { 5 } else { 3 });
        for _ in 0..n {
            p.new_txn();
            let rows = rng.range(2, 6);
            match rng.below(8) {
                0 => {
                    let t = p.tag();
                    p.simple(format!("SELECT '{}', sim_error()", t));
                }
                1 => {
                    let t = p.tag();
                    p.simple(format!("SELECT '{}', sim_rows({}), sim_error_after({})", t, rows, rng.range(1, rows - 1)));
                }
                2 => {
                    let t = p.tag();
                    p.simple(format!("COPY t TO STDOUT /* {} sim_rows({}) sim_error_after({}) */", t, rows, rng.range(1, rows - 1)));
                }
                3 => {
                    let t = p.tag();
                    p.simple(format!("COPY t TO STDOUT /* {} sim_rows({}) */", t, rows));
                }
                4 => {
                    let t = p.tag();
                    let txn = p.t;
                    p.steps.push(Step::CopyIn { sql: format!("COPY t FROM STDIN /* {} */", t), chunks: vec![100; rng.range(0, 3) as usize], fail: rng.chance(0.5), drop_after: None, txn });
                }
                5 => {
                    let t = p.tag();
                    p.simple(format!("BEGIN /* {} */", t));
                    let t = p.tag();
                    p.simple(format!("SELECT '{}', sim_error()", t));
                    let t = p.tag();
                    p.simple(format!("ROLLBACK /* {} */", t));
                }
                6 => {
                    let m = ext_batch(&mut p, rng, "", ", sim_error()", 1, 0, 0, false, false);
                    p.send(m);
                }
                _ => {
                    let s = p.select(rows, 0, "");
                    p.simple(s);
                }
            }
            p.think(rng.range(800, 2500));
        }
        p.steps.push(Step::Terminate);
        clients.push(client(id, "app", "db", "apppw", rng.range(0, 10), p.steps));
    }
    let nneedy = rng.range(1, 3) as u32;
    for i in 0..nneedy {
        let id = 10 + i;
        let mut p = Prog::new(id);
        for _ in 0..rng.range(4, 10) {
            p.new_txn();
            let s = p.select(1, 0, "");
            p.simple(s);
            p.think(rng.range(50, 400));
        }
        p.steps.push(Step::Terminate);
        clients.push(client(id, "app", "db", "apppw", rng.range(20, 200), p.steps));
    }
    let net = if rng.chance(0.5) { net_calm() } else { net_swarm(rng) };
    let mut spec = Spec { config_toml: cfg.render(), hosts: cfg.hosts(), net, clients, end: EndSpec { deadline_ms: 900_000, calm_ms: 500 }, ..Default::default() };
    spec.params = params_from(&cfg);
    spec.family = "capacity/idle_holders".into();
    add_final_probes(&mut spec, &cfg, rng);
    spec.oracles = vec!["c04_bound".into(), "c04_capacity".into(), "c04_usable".into(), "liveness".into()];
    spec
}

/// C04 sub-family: the last thing that happens on a server connection is its client going away
/// in the middle of a transaction, in a session, or with a broken message, while that client's
/// *earlier* transactions ran on another connection of the same server (held by somebody else
/// now). With nobody left, nothing may still be marked in use.
fn c04_last_user_aborts(rng: &mut Rng) -> Spec {
    let pool_size = rng.range(2, 3) as u32;
    let mut cfg = single_pool("transaction", pool_size, 0);
    cfg.set("connect_timeout", 60000);
    // A: one transaction (on the only connection there is), then waits until B holds that one,
    // opens a transaction of its own (on a second connection) and goes away inside it
    let mut a = Prog::new(1);
    for _ in 0..rng.range(1, 2) {
        a.new_txn();
        let s = a.select(1, 0, "");
        a.simple(s);
    }
    a.steps.push(Step::Emit { ev: "a_warm".into() });
    a.steps.push(Step::Wait { ev: "b_holds".into() });
    a.new_txn();
    let t = a.tag();
    a.simple(format!("BEGIN /* {} */", t));
    if rng.chance(0.7) {
        let s = a.select(1, 0, "");
        a.simple(s);
    }
    match rng.below(4) {
        0 => a.steps.push(Step::Terminate),
        1 => a.steps.push(Step::Drop { abort: false }),
        2 => a.steps.push(Step::Drop { abort: true }),
        _ => {
            // Bind of a statement nobody prepared: PgCat answers with an error and drops the client
            let tag = a.tag();
            let t = a.t;
            a.steps.push(Step::Send { msgs: vec![FrontMsg::B { portal: "".into(), stmt: "nosuch".into(), fmt: vec![], params: vec![Some(tag)], rfmt: vec![], binary_hex: false }, FrontMsg::E { portal: "".into(), max: 0 }, FrontMsg::S], rfq: None, cut: None, abort: false, txn: t });
            a.steps.push(Step::Hold { until: None, max_ms: 300 });
            a.steps.push(Step::Drop { abort: false });
        }
    }
    let mut b = Prog::new(2);
    b.new_txn();
    let t = b.tag();
    b.simple(format!("BEGIN /* {} */", t));
    let s = b.select(1, 0, "");
    b.simple(s);
    b.steps.push(Step::Emit { ev: "b_holds".into() });
    b.steps.push(Step::Wait { ev: "c1.done".into() });
    b.think(rng.range(0, 50));
    let t = b.tag();
    b.simple(format!("COMMIT /* {} */", t));
    b.steps.push(Step::Terminate);
    let mut cb = client(2, "app", "db", "apppw", 0, b.steps);
    cb.start = When::After { ev: "a_warm".into(), delay_ms: rng.range(0, 10) };
    let clients = vec![client(1, "app", "db", "apppw", rng.range(0, 10), a.steps), cb];
    let net = if rng.chance(0.5) { net_calm() } else { net_swarm(rng) };
    let mut spec = Spec { config_toml: cfg.render(), hosts: cfg.hosts(), net, clients, end: EndSpec { deadline_ms: 900_000, calm_ms: 500 }, ..Default::default() };
    spec.params = params_from(&cfg);
    spec.family = "capacity/last_user_aborts".into();
    add_final_probes(&mut spec, &cfg, rng);
    spec.oracles = vec!["c04_bound".into(), "c04_capacity".into(), "c04_usable".into(), "liveness".into()];
    spec
}

pub fn c04(rng: &mut Rng, thorough: bool, idx: u64) -> Spec {
    if idx % 3 == 2 {
        return c04_idle_holders(rng, thorough);
    }
    if idx % 12 == 7 {
        return c04_last_user_aborts(rng);
    }
    let faults = idx % 2 == 1;
    let mut mix = Mix::swarm(rng);
    mix.big_replies = rng.chance(0.3);
    let net = if rng.chance(0.3) { net_calm() } else { net_swarm(rng) };
    let o = BaseOpts { clients: (3, if thorough { 12 } else { 7 }), txns: (1, if thorough { 6 } else { 3 }), pool_size: (1, 3), replicas: (0, 1), session_mode_p: 0.3, parser_p: 0.2 };
    let (mut spec, cfg) = base_world(rng, &o, &mix, net);
    spec.family = if faults { "capacity+aborts+server_drops".into() } else { "capacity".into() };
    if faults {
        inject_client_aborts(&mut spec, rng, 0.5);
        // server-side errors are part of the mix already (failed transactions); add connection drops
        if rng.chance(0.6) {
            let host = rng.pick(&spec.hosts).addr.clone();
            spec.actions.push(ActionSpec { at: When::AtMs { ms: rng.range(5, 80) }, act: Action::KillConns { host, how: rng.pick(&["fin", "rst"]).to_string() } });
            spec.params.insert("server_faults".into(), serde_json::json!(true));
        }
        // sometimes a connect timeout shorter than the hold times, so that waiters get a pool error
        // (never shorter than the time a fresh server connection needs with this network: that
        // would make "pool error" the legitimate answer to everybody, including the probe)
        if rng.chance(0.4) {
            let mut cfg2 = cfg.clone();
            cfg2.set("connect_timeout", rng.range(400, 900));
            spec.config_toml = cfg2.render();
            // long holders, so that waiters run into the timeout
            for c in spec.clients.iter_mut() {
                if rng.chance(0.4) {
                    let id = c.id;
                    let hold = rng.range(500, 1500);
                    let mut pre = vec![
                        Step::Send { msgs: vec![FrontMsg::Q { sql: format!("BEGIN /* c{}.t90.s1 */", id) }], rfq: None, cut: None, abort: false, txn: 90 },
                        Step::Think { ms: hold },
                        Step::Send { msgs: vec![FrontMsg::Q { sql: format!("COMMIT /* c{}.t90.s2 */", id) }], rfq: None, cut: None, abort: false, txn: 90 },
                    ];
                    pre.extend(c.steps.drain(..));
                    c.steps = pre;
                }
            }
        }
    }
    spec.end.calm_ms = 500;
    if faults {
        // let bb8's reaper close every idle (possibly dead) server connection before the probe
        let mut cfg2 = cfg.clone();
        for l in spec.config_toml.lines() {
            if let Some(v) = l.strip_prefix("connect_timeout = ") {
                cfg2.set("connect_timeout", v);
            }
        }
        cfg2.set("idle_timeout", 3000);
        spec.config_toml = cfg2.render();
        spec.end.calm_ms = 20_000;
    }
    add_final_probes(&mut spec, &cfg, rng);
    spec.oracles = vec!["c04_bound".into(), "c04_capacity".into(), "c04_usable".into(), "liveness".into()];
    spec
}

const APP_NAMES: [&str; 10] = ["app one", "it's", "a\"b", "back\\slash", "ünïcode", "semi;colon", "", "x", "O''Reilly", "tab\there"];
const TZS: [&str; 5] = ["Etc/UTC", "America/New_York", "Europe/Berlin", "Asia/Tokyo", "UTC"];
const ENCS: [&str; 3] = ["UTF8", "LATIN1", "SQL_ASCII"];
const DSS: [&str; 4] = ["ISO, MDY", "ISO, DMY", "SQL, DMY", "German, DMY"];

fn sql_quote(s: &str) -> String {
    format!("'{}'", s.replace('\'', "''"))
}

pub fn c12(rng: &mut Rng, thorough: bool, idx: u64) -> Spec {
    // idx % 4 == 3: hostile values (quotes, backslashes, non-ASCII); the rest: plain values
    let hostile = idx % 4 == 3;
    // idx % 8 == 5: session mode with an idle-in-transaction timeout: a client that sat in an open
    // transaction for too long loses its server, and gets its parameters back with the next one
    let session_timeout = idx % 8 == 5;
    let nclients = rng.range(2, if thorough { 5 } else { 4 }) as u32;
    let pool_size = if session_timeout { nclients } else { rng.range(1, 2) as u32 };
    let mut cfg = single_pool(if session_timeout { "session" } else { "transaction" }, pool_size, 0);
    cfg.set("connect_timeout", 60000);
    let idle_timeout = rng.range(80, 200);
    if session_timeout {
        cfg.set("idle_client_in_transaction_timeout", idle_timeout);
    }
    if rng.chance(0.3) {
        cfg.set("healthcheck_delay", 0);
    }
    let names: Vec<&str> = if hostile { APP_NAMES.to_vec() } else { vec!["app one", "x", "reporting", "Worker", "worker", "batch-7"] };
    let mut clients = Vec::new();
    for i in 0..nclients {
        let id = i + 1;
        let mut p = Prog::new(id);
        let mut sp: Vec<(String, String)> = Vec::new();
        if rng.chance(0.7) {
            sp.push(("application_name".into(), rng.pick(&names).to_string()));
        }
        if rng.chance(0.4) {
            sp.push((rng.pick(&["TimeZone", "timezone"]).to_string(), rng.pick(&TZS).to_string()));
        }
        if rng.chance(0.3) {
            sp.push(("client_encoding".into(), rng.pick(&ENCS).to_string()));
        }
        if rng.chance(0.3) {
            sp.push((rng.pick(&["DateStyle", "datestyle"]).to_string(), rng.pick(&DSS).to_string()));
        }
        if rng.chance(0.2) {
            sp.push(("standard_conforming_strings".into(), rng.pick(&["on", "off"]).to_string()));
        }
        let n = rng.range(2, if thorough { 8 } else { 5 });
        for _ in 0..n {
            p.new_txn();
            match rng.below(6) {
                0 => {
                    let v = rng.pick(&names).to_string();
                    let t = p.tag();
                    p.simple(format!("SET application_name TO {} /* {} */", sql_quote(&v), t));
                }
                1 => {
                    let t = p.tag();
                    p.simple(format!("SET TimeZone TO {} /* {} */", sql_quote(*rng.pick(&TZS)), t));
                }
                2 => {
                    let t = p.tag();
                    p.simple(format!("SET statement_timeout TO {} /* {} */", rng.range(1, 9999), t));
                }
                3 => {
                    // SET LOCAL of a tracked parameter inside a transaction, then COMMIT
                    let t = p.tag();
                    p.simple(format!("BEGIN /* {} */", t));
                    let t = p.tag();
                    p.simple(format!("SET LOCAL DateStyle TO {} /* {} */", sql_quote(*rng.pick(&DSS)), t));
                    let sql = p.select(1, 0, "");
                    p.simple(sql);
                    let t = p.tag();
                    p.simple(format!("COMMIT /* {} */", t));
                }
                5 if rng.chance(0.5) => {
                    // SET (not LOCAL) of a tracked parameter inside a transaction that is rolled
                    // back or committed: the value the server reports at the end is the one
                    // that follows the client
                    let t = p.tag();
                    p.simple(format!("BEGIN /* {} */", t));
                    let t = p.tag();
                    if rng.chance(0.5) {
                        p.simple(format!("SET TimeZone TO {} /* {} */", sql_quote(*rng.pick(&TZS)), t));
                    } else {
                        let v = rng.pick(&names).to_string();
                        p.simple(format!("SET application_name TO {} /* {} */", sql_quote(&v), t));
                    }
                    let sql = p.select(1, 0, "");
                    p.simple(sql);
                    let t = p.tag();
                    p.simple(format!("{} /* {} */", rng.pick(&["ROLLBACK", "COMMIT"]), t));
                }
                4 if session_timeout => {
                    // sits in an open transaction until the pooler takes the server away
                    let t = p.tag();
                    p.simple(format!("BEGIN /* {} */", t));
                    let sql = p.select(1, 0, "");
                    p.simple(sql);
                    p.steps.push(Step::Hold { until: None, max_ms: idle_timeout + 150 });
                }
                _ => {
                    let sql = p.select(1, 0, "");
                    p.simple(sql);
                }
            }
            if rng.chance(0.4) {
                p.think(rng.range(1, 15));
            }
        }
        p.new_txn();
        let sql = p.select(1, 0, "");
        p.simple(sql);
        p.steps.push(Step::Terminate);
        let mut c = client(id, "app", "db", "apppw", rng.range(0, 10), p.steps);
        c.startup_params = sp;
        clients.push(c);
    }
    // (the timeout variant on the calm network: the timeout must only fire where the program idles)
    let net = if session_timeout || rng.chance(0.5) { net_calm() } else { net_swarm(rng) };
    let mut spec = Spec { config_toml: cfg.render(), hosts: cfg.hosts(), net, clients, end: EndSpec { deadline_ms: 900_000, calm_ms: 100 }, ..Default::default() };
    spec.params = params_from(&cfg);
    spec.family = if session_timeout { "params/session_idle_in_transaction_timeout".into() } else if hostile { "params_hostile_values".into() } else { "params".into() };
    spec.oracles = vec!["c12_params".into(), "liveness".into()];
    spec
}

/// C02: pool_size 1, client A runs a program that dirties the session and stops in one of many
/// ways (including a cut at a chosen byte), client B then inherits the connection and probes.
pub fn c02(rng: &mut Rng, thorough: bool, idx: u64) -> Spec {
    let cache_on = rng.chance(0.25);
    let session = rng.chance(0.3);
    let mut cfg = single_pool(if session { "session" } else { "transaction" }, 1, 0);
    cfg.set("connect_timeout", 60000);
    if cache_on && !session {
        cfg.pools[0].cache_size = *rng.pick(&[1usize, 2, 8]);
    }
    // The network first: the two timeouts must leave room for a round trip plus the think times
    // of the programs (up to 30 ms), or they fire in the middle of ordinary work and every reply
    // after the unsolicited error is off by one for a strict client.
    let net = if rng.chance(0.4) { net_calm() } else { net_swarm(rng) };
    let rtt = 4 * (net.latency_ms.1 + net.jitter_ms);
    let idle_txn_timeout = if rng.chance(0.3) { 60 + rtt + rng.range(0, 80) } else { 0 };
    cfg.set("idle_client_in_transaction_timeout", idle_txn_timeout);
    let stmt_timeout = if rng.chance(0.3) { 30 + rtt + rng.range(0, 70) } else { 0 };
    cfg.pools[0].users[0].statement_timeout = stmt_timeout;
    if rng.chance(0.3) {
        cfg.pools[0].query_parser_enabled = true;
    }
    if rng.chance(0.5) {
        cfg.set("healthcheck_delay", 0);
    }
    let _ = thorough;

    // ---- client A ----
    let mut a = Prog::new(1);
    let n_pre = rng.range(0, 2);
    for _ in 0..n_pre {
        // dirty the session outside a transaction block
        a.new_txn();
        match rng.below(5) {
            0 => {
                let t = a.tag();
                a.simple(format!("SET statement_timeout TO {} /* {} */", rng.range(1000, 9999), t));
            }
            1 => {
                let t = a.tag();
                a.simple(format!("SET ROLE some_role /* {} */", t));
            }
            2 => {
                let t = a.tag();
                a.simple(format!("PREPARE leak{} AS SELECT '{}'", rng.range(1, 3), t));
            }
            3 => {
                // named protocol statement that is not closed
                let tag = a.tag();
                let name = format!("n{}", rng.range(1, 3));
                a.send(vec![FrontMsg::P { name, sql: format!("SELECT '{}'", tag), types: vec![] }, FrontMsg::S]);
            }
            _ => {
                let t = a.tag();
                a.simple(format!("SET work_mem TO '64MB' /* {} */", t));
            }
        }
    }
    // the stopping situation
    a.new_txn();
    let stop = *rng.pick(&["commit", "terminate_idle", "drop_idle", "drop_in_txn", "drop_in_failed_txn", "cut_message", "cut_message", "drop_in_copy_in", "drop_in_copy_in_txn", "drop_mid_big_reply", "bad_message", "bind_unknown", "idle_in_txn", "stmt_timeout", "drop_after_set_local", "terminate_in_txn"]);
    let mut expect_idle_timeout = false;
    match stop {
        "commit" => {
            let t = a.tag();
            a.simple(format!("BEGIN /* {} */", t));
            let s = a.select(1, 0, "");
            a.simple(s);
            // session state changed inside the transaction block, each in a message of its own:
            // PREPARE and SET outlive the COMMIT, SET LOCAL does not
            match rng.below(5) {
                0 => {
                    let t = a.tag();
                    a.simple(format!("PREPARE in_txn{} AS SELECT '{}'", rng.range(1, 3), t));
                }
                1 => {
                    let t = a.tag();
                    a.simple(format!("SET statement_timeout TO {} /* {} */", rng.range(1000, 9999), t));
                }
                2 => {
                    let t = a.tag();
                    a.simple(format!("SET LOCAL work_mem TO '1MB' /* {} */", t));
                }
                _ => {}
            }
            let t = a.tag();
            a.simple(format!("{} /* {} */", if rng.chance(0.8) { "COMMIT" } else { "ROLLBACK" }, t));
            a.steps.push(Step::Hold { until: Some("b_done".into()), max_ms: 5000 });
            a.steps.push(Step::Terminate);
        }
        "terminate_idle" => {
            let s = a.select(1, 0, "");
            a.simple(s);
            a.steps.push(Step::Terminate);
        }
        "drop_idle" => {
            let s = a.select(1, 0, "");
            a.simple(s);
            a.steps.push(Step::Drop { abort: rng.chance(0.3) });
        }
        "drop_in_txn" | "terminate_in_txn" | "drop_after_set_local" => {
            let t = a.tag();
            a.simple(format!("BEGIN /* {} */", t));
            if stop == "drop_after_set_local" {
                let t = a.tag();
                a.simple(format!("SET LOCAL statement_timeout TO 777 /* {} */", t));
            }
            let s = a.select(1, 0, "");
            a.simple(s);
            if stop == "terminate_in_txn" {
                a.steps.push(Step::Terminate);
            } else {
                a.steps.push(Step::Drop { abort: rng.chance(0.3) });
            }
        }
        "drop_in_failed_txn" => {
            let t = a.tag();
            a.simple(format!("BEGIN /* {} */", t));
            let t = a.tag();
            a.simple(format!("SELECT '{}', sim_error()", t));
            a.steps.push(Step::Drop { abort: rng.chance(0.3) });
        }
        "cut_message" => {
            // a transaction whose k-th message is cut at byte offset `cut` (swept by the check)
            let in_txn = rng.chance(0.6);
            if in_txn {
                let t = a.tag();
                a.simple(format!("BEGIN /* {} */", t));
            }
            let msgs = if rng.chance(0.5) {
                vec![FrontMsg::Q { sql: a.select(2, 0, "") }]
            } else {
                ext_batch(&mut a, rng, "", "", 2, 0, 0, true, false)
            };
            let total: usize = msgs.iter().map(|m| crate::sclient::encode(m).len()).sum();
            let cut = if idx % 2 == 0 {
                // message boundary
                let mut bounds = vec![0usize];
                let mut acc = 0;
                for m in &msgs {
                    acc += crate::sclient::encode(m).len();
                    bounds.push(acc);
                }
                *rng.pick(&bounds)
            } else {
                rng.range(0, total as u64) as usize
            };
            let t = a.t;
            a.steps.push(Step::Send { msgs, rfq: None, cut: Some(cut), abort: rng.chance(0.3), txn: t });
        }
        "drop_in_copy_in" | "drop_in_copy_in_txn" => {
            if stop == "drop_in_copy_in_txn" {
                let t = a.tag();
                a.simple(format!("BEGIN /* {} */", t));
            }
            let t = a.tag();
            let txn = a.t;
            let n = rng.range(0, 3) as usize;
            a.steps.push(Step::CopyIn { sql: format!("COPY t FROM STDIN /* {} */", t), chunks: vec![100; 3], fail: false, drop_after: Some(n), txn });
        }
        "drop_mid_big_reply" => {
            // ask for a reply much larger than the send buffer and disappear without reading it
            let in_txn = rng.chance(0.5);
            if in_txn {
                let t = a.tag();
                a.simple(format!("BEGIN /* {} */", t));
            }
            let sql = a.select(rng.range(20, 60), 8200, "");
            let t = a.t;
            a.steps.push(Step::Send { msgs: vec![FrontMsg::Q { sql }], rfq: Some(0), cut: None, abort: false, txn: t });
            a.steps.push(Step::Think { ms: rng.range(0, 5) });
            a.steps.push(Step::Drop { abort: rng.chance(0.5) });
        }
        "bad_message" => {
            let in_txn = rng.chance(0.7);
            if in_txn {
                let t = a.tag();
                a.simple(format!("BEGIN /* {} */", t));
                let s = a.select(1, 0, "");
                a.simple(s);
            }
            // malformed Close / Describe / Bind bodies, unknown type
            let raw = match rng.below(4) {
                0 => "4300000004".to_string(),          // Close with empty body
                1 => "440000000553".to_string(),        // Describe 'S' without terminator
                2 => "42000000067878".to_string(),      // Bind with garbage
                _ => "7a0000000400".to_string(),        // unknown type 'z'
            };
            a.steps.push(Step::Raw { hex: raw, read_ms: 200 });
            a.steps.push(Step::Drop { abort: false });
        }
        "bind_unknown" => {
            let in_txn = rng.chance(0.7);
            if in_txn {
                let t = a.tag();
                a.simple(format!("BEGIN /* {} */", t));
                let s = a.select(1, 0, "");
                a.simple(s);
            }
            let tag = a.tag();
            let t = a.t;
            a.steps.push(Step::Send { msgs: vec![FrontMsg::B { portal: "".into(), stmt: "nosuch".into(), fmt: vec![], params: vec![Some(tag)], rfmt: vec![], binary_hex: false }, FrontMsg::E { portal: "".into(), max: 0 }, FrontMsg::S], rfq: None, cut: None, abort: false, txn: t });
            a.steps.push(Step::Hold { until: None, max_ms: 300 });
            a.steps.push(Step::Drop { abort: false });
        }
        "idle_in_txn" => {
            let t = a.tag();
            a.simple(format!("BEGIN /* {} */", t));
            let s = a.select(1, 0, "");
            a.simple(s);
            expect_idle_timeout = idle_txn_timeout > 0;
            a.steps.push(Step::Hold { until: Some("b_done".into()), max_ms: 2000 });
            a.steps.push(Step::Drop { abort: false });
        }
        "stmt_timeout" => {
            let in_txn = rng.chance(0.5);
            if in_txn {
                let t = a.tag();
                a.simple(format!("BEGIN /* {} */", t));
            }
            let t = a.tag();
            a.simple(format!("SELECT '{}', sim_sleep(400)", t));
            a.steps.push(Step::Hold { until: Some("b_done".into()), max_ms: 2000 });
            a.steps.push(Step::Drop { abort: false });
        }
        _ => unreachable!(),
    }
    let _ = expect_idle_timeout;
    let ca = client(1, "app", "db", "apppw", 0, a.steps);

    // ---- client B: inherits the connection ----
    let mut b = Prog::new(2);
    b.new_txn();
    let s = b.select(1, 0, "");
    b.simple(s);
    b.new_txn();
    let m = ext_batch(&mut b, rng, "", "", 1, 0, 0, true, false);
    b.send(m);
    b.new_txn();
    let t = b.tag();
    b.simple(format!("BEGIN /* {} */", t));
    let s = b.select(2, 0, "");
    b.simple(s);
    let t = b.tag();
    b.simple(format!("COMMIT /* {} */", t));
    b.steps.push(Step::Emit { ev: "b_done".into() });
    b.steps.push(Step::Terminate);
    let mut cb = client(2, "app", "db", "apppw", 0, b.steps);
    // B starts once A has stopped (or, for the "commit"/timeouts cases, while A is still connected)
    cb.start = match stop {
        "commit" => When::After { ev: "c1.s2.done".into(), delay_ms: 0 }, // wrong index is harmless: falls back below
        "idle_in_txn" | "stmt_timeout" => When::AtMs { ms: 5 },
        _ => When::After { ev: "c1.done".into(), delay_ms: rng.range(0, 5) },
    };
    if stop == "commit" {
        // after A's COMMIT step completed: find its index
        let commit_idx = ca.steps.iter().position(|s| matches!(s, Step::Hold { .. })).unwrap_or(1).saturating_sub(1);
        cb.start = When::After { ev: format!("c1.s{}.done", commit_idx), delay_ms: 0 };
    }
    // A tenth of the runs: the server answers slowly while B arrives, so that the health check
    // PgCat runs at checkout times out with its reply still on the way (the connection must not
    // be used again with that reply unread).
    let mut actions = Vec::new();
    let slow_health_check = rng.chance(0.1) && !matches!(stop, "idle_in_txn" | "stmt_timeout");
    if slow_health_check {
        let hct = 40 + rtt + rng.range(0, 40);
        cfg.set("healthcheck_delay", 0);
        cfg.set("healthcheck_timeout", hct);
        let host = cfg.hosts()[0].addr.clone();
        let ev = match &cb.start {
            When::After { ev, .. } => ev.clone(),
            _ => "c1.done".to_string(),
        };
        actions.push(ActionSpec { at: When::After { ev: ev.clone(), delay_ms: 0 }, act: Action::HostBehaviour { host: host.clone(), b: format!("slow:{}", hct + rng.range(30, 150)) } });
        actions.push(ActionSpec { at: When::After { ev: ev.clone(), delay_ms: hct * 3 + rng.range(100, 400) }, act: Action::HostBehaviour { host, b: "normal".into() } });
        if let When::After { delay_ms, .. } = &mut cb.start {
            *delay_ms += 8;
        }
    }
    let mut spec = Spec { config_toml: cfg.render(), hosts: cfg.hosts(), net, clients: vec![ca, cb], actions, end: EndSpec { deadline_ms: 900_000, calm_ms: 100 }, ..Default::default() };
    spec.params = params_from(&cfg);
    spec.params.insert("cache_on".into(), serde_json::json!(cfg.pools[0].cache_size > 0));
    spec.params.insert("slow_health_check".into(), serde_json::json!(slow_health_check));
    spec.params.insert("stop".into(), serde_json::json!(stop));
    spec.family = format!("handoff/{}", stop);
    spec.oracles = vec!["c02_clean_handoff".into(), "liveness".into()];
    spec
}
