//! Router families: C13 (command language), C05 (roles), C06 (shards), C19 (plugins).

use super::*;
use crate::proto;

fn respell(rng: &mut Rng, s: &str) -> String {
    // random letter case
    match rng.below(4) {
        0 => s.to_ascii_lowercase(),
        1 => s.to_ascii_uppercase(),
        2 => s.to_string(),
        _ => s.chars().map(|c| if rng.chance(0.5) { c.to_ascii_uppercase() } else { c.to_ascii_lowercase() }).collect(),
    }
}

fn decorate(rng: &mut Rng, core: &str) -> String {
    // commands have no length limit: sometimes pad beyond any plausible buffer or search limit
    let long = rng.chance(0.06);
    let lead = " ".repeat(if long && rng.chance(0.5) { rng.range(900, 6000) as usize } else { *rng.pick(&[0usize, 0, 1, 3]) });
    let mid = " ".repeat(*rng.pick(&[0usize, 0, 1, 2]));
    let semi = if rng.chance(0.5) { ";" } else { "" };
    let trail = " ".repeat(if long { rng.range(900, 9000) as usize } else { *rng.pick(&[0usize, 0, 1, 4]) });
    format!("{}{}{}{}{}", lead, core, mid, semi, trail)
}

fn quoted(rng: &mut Rng, v: &str, mandatory: bool) -> String {
    if mandatory || rng.chance(0.5) {
        format!("'{}'", v)
    } else {
        v.to_string()
    }
}

fn number(rng: &mut Rng, nshards: usize) -> String {
    match rng.below(10) {
        0 => "0".into(),
        1 => (nshards - 1).to_string(),
        2 => nshards.to_string(),
        3 => format!("{}", rng.range(0, 20)),
        4 => "9223372036854775807".into(),
        5 => "9223372036854775808".into(),
        6 => "18446744073709551616".into(),
        7 => {
            let n = rng.range(20, 60) as usize;
            (0..n).map(|_| char::from(b'0' + rng.below(10) as u8)).collect()
        }
        8 => format!("{}{}", "0".repeat(if rng.chance(0.3) { rng.range(900, 5000) as usize } else { 3 }), rng.range(0, 5)),
        _ => format!("{}", rng.next_u64() >> rng.below(63)),
    }
}

/// A valid command in one of its documented spellings.
fn valid_command(rng: &mut Rng, nshards: usize) -> String {
    let core = match rng.below(9) {
        0 | 1 => {
            let head = respell(rng, "SET SHARD TO");
            let v = if rng.chance(0.15) {
                respell(rng, "ANY")
            } else if rng.chance(0.7) {
                rng.below(nshards as u64 + 1).to_string()
            } else {
                number(rng, nshards)
            };
            format!("{} {}", head, quoted(rng, &v, false))
        }
        2 | 3 => {
            let head = respell(rng, "SET SHARDING KEY TO");
            let v = number(rng, nshards);
            format!("{} {}", head, quoted(rng, &v, false))
        }
        4 => {
            let head = respell(rng, "SET SERVER ROLE TO");
            let w = *rng.pick(&["primary", "replica", "any", "auto", "default"]);
            let v = respell(rng, w);
            format!("{} {}", head, quoted(rng, &v, true))
        }
        5 => {
            let head = respell(rng, "SET PRIMARY READS TO");
            let w = *rng.pick(&["on", "off", "default"]);
            let v = respell(rng, w);
            format!("{} {}", head, quoted(rng, &v, false))
        }
        6 => respell(rng, "SHOW SHARD"),
        7 => respell(rng, "SHOW SERVER ROLE"),
        _ => respell(rng, "SHOW PRIMARY READS"),
    };
    decorate(rng, &core)
}

/// A query that merely looks like or contains a command; the tag (when the shape allows one)
/// makes the forwarded copy attributable.
fn near_miss(rng: &mut Rng, nshards: usize, tag: &str) -> String {
    let cmd = valid_command(rng, nshards).trim().trim_end_matches(';').trim().to_string();
    match rng.below(14) {
        0 => format!("{} /* {} */", cmd, tag),
        1 => format!("/* {} */ {}", tag, cmd),
        2 => format!("{}; SELECT '{}'", cmd, tag),
        3 => format!("SELECT '{}'; {}", tag, cmd),
        4 => format!("SELECT '{}', '{}'", cmd.replace('\'', "''"), tag),
        5 => format!("{} -- {}", cmd, tag),
        6 => format!("{};;", cmd),
        7 => format!("SET SHARD TO -{} /* {} */", rng.range(1, 9), tag),
        8 => format!("SET SHARD = {} /* {} */", rng.range(0, 3), tag),
        9 => format!("SET SHARDING KEY TO 'k{}' /* {} */", rng.range(0, 99), tag),
        10 => format!("SHOW SHARDS /* {} */", tag),
        11 => format!("SET SERVER ROLE TO 'master' /* {} */", tag),
        12 => format!("SET PRIMARY READS TO 'yes' /* {} */", tag),
        _ => format!("EXPLAIN {} /* {} */", cmd, tag),
    }
}

/// Undocumented spellings: accepted either way, counted.
fn grey(rng: &mut Rng, nshards: usize) -> String {
    let n = rng.below(nshards as u64 + 1);
    match rng.below(6) {
        0 => format!("SET  SHARD TO {}", n),
        1 => format!("SET SHARD TO {}\n", n),
        2 => format!("SET\tSHARD TO {}", n),
        3 => format!("SET SHARD TO '{}", n),
        4 => format!("SET SHARD TO {}'", n),
        _ => "SET SERVER ROLE TO primary".to_string(),
    }
}

/// C13: 1-3 clients, each a sequence of commands in all spellings, near misses, grey spellings
/// and ordinary tagged statements, outside transactions in a transaction-mode pool; numeric
/// arguments of any length; a third of the runs lose every server after start-up (commands must
/// still be answered by the pooler alone).
fn number_fits(query: &str) -> bool {
    use crate::refmodel::{recognise, Cmd, Recognised};
    match recognise(query) {
        Recognised::Command(Cmd::SetShardingKey(v)) => v.parse::<i64>().is_ok(),
        Recognised::Command(Cmd::SetShard(v)) => v == "ANY" || v.parse::<u64>().is_ok(),
        Recognised::Command(_) => true,
        _ => false,
    }
}

pub fn c13(rng: &mut Rng, thorough: bool, idx: u64) -> Spec {
    let nshards = rng.range(1, 4) as usize;
    let replicas = rng.range(0, 1) as usize;
    // every eleventh run in session mode (a client that has run something holds its server)
    let session = idx % 11 == 7 && idx % 3 != 2 && idx % 5 != 1;
    let mut cfg = sharded_pool(if session { "session" } else { "transaction" }, if session { 4 } else { rng.range(1, 3) as u32 }, nshards, replicas);
    cfg.set("connect_timeout", 1500);
    cfg.set("ban_time", 1);
    cfg.pools[0].sharding_function = rng.pick(&["pg_bigint_hash", "sha1"]).to_string();
    cfg.pools[0].default_role = rng.pick(&["any", "any", "primary", "replica"]).to_string();
    if replicas == 0 && cfg.pools[0].default_role == "replica" {
        cfg.pools[0].default_role = "any".into();
    }
    cfg.pools[0].primary_reads_enabled = rng.chance(0.5);
    cfg.pools[0].query_parser_enabled = rng.chance(0.3);
    let offline = idx % 3 == 2;
    // the pool is PAUSEd by the operator for the whole run: the commands need no server and are
    // answered all the same
    let paused = !offline && idx % 5 == 1;
    let offline = offline || paused;
    let nclients = rng.range(1, 3) as u32;
    let mut clients = Vec::new();
    for id in 1..=nclients {
        let mut p = Prog::new(id);
        let n = rng.range(4, if thorough { 30 } else { 14 });
        for _ in 0..n {
            p.new_txn();
            let r = rng.below(100);
            if r < 60 {
                let mut c = valid_command(rng, nshards);
                while paused && !number_fits(&c) {
                    c = valid_command(rng, nshards);
                }
                p.simple(c);
            } else if r < 80 && !offline {
                let t = p.tag();
                let c = near_miss(rng, nshards, &t);
                p.simple(c);
            } else if r < 88 && !offline {
                let c = grey(rng, nshards);
                p.simple(c);
            } else if !offline {
                let s = p.select(1, 0, "");
                p.simple(s);
            } else {
                let mut c = valid_command(rng, nshards);
                // (a number beyond 64 bits is left to a server, which a paused pool withholds)
                while paused && !number_fits(&c) {
                    c = valid_command(rng, nshards);
                }
                p.simple(c);
            }
            if rng.chance(0.3) {
                p.think(rng.range(0, 20));
            }
        }
        if !offline && rng.chance(0.25) {
            // last of all (whatever happens here, everything before it has been judged): a
            // command sent inside a transaction block
            p.new_txn();
            let t = p.tag();
            p.simple(format!("BEGIN /* {} */", t));
            let mut c = valid_command(rng, nshards);
            while !number_fits(&c) {
                c = valid_command(rng, nshards);
            }
            p.simple(c);
            let t = p.tag();
            p.simple(format!("{} /* {} */", rng.pick(&["COMMIT", "ROLLBACK"]), t));
        }
        p.steps.push(Step::Terminate);
        let mut c = client(id, "app", "db", "apppw", rng.range(0, 30), p.steps);
        if offline {
            c.start = When::After { ev: if paused { "c900.s0.done".into() } else { "servers_down".into() }, delay_ms: rng.range(1, 30) };
        }
        c.patience_ms = 30_000;
        clients.push(c);
    }
    if paused {
        let scope = if rng.chance(0.5) { "PAUSE".to_string() } else { "PAUSE db,app".to_string() };
        let mut a = admin_client(900, "main", When::AtMs { ms: rng.range(0, 20) }, &[&scope]);
        a.steps.pop();
        a.steps.push(Step::Hold { until: Some(format!("c{}.done", nclients)), max_ms: 40_000 });
        a.steps.push(Step::Terminate);
        clients.push(a);
    }
    let hosts = cfg.hosts();
    let mut actions = Vec::new();
    if offline && !paused {
        // every server goes away after PgCat has started (the login itself needs none)
        for h in &hosts {
            actions.push(ActionSpec { at: When::AtMs { ms: 50 }, act: Action::HostMode { host: h.addr.clone(), mode: "refuse".into() } });
            actions.push(ActionSpec { at: When::AtMs { ms: 50 }, act: Action::KillConns { host: h.addr.clone(), how: "rst".into() } });
        }
        actions.push(ActionSpec { at: When::AtMs { ms: 51 }, act: Action::Emit { ev: "servers_down".into() } });
    }
    let net = if rng.chance(0.5) { net_calm() } else { net_swarm(rng) };
    let mut spec = Spec { config_toml: cfg.render(), hosts, net, clients, actions, end: EndSpec { deadline_ms: 900_000, calm_ms: 20 }, ..Default::default() };
    spec.params = params_from(&cfg);
    spec.params.insert("nshards".into(), serde_json::json!(nshards));
    spec.params.insert("sharding_function".into(), serde_json::json!(cfg.pools[0].sharding_function));
    spec.params.insert("default_role".into(), serde_json::json!(cfg.pools[0].default_role));
    spec.params.insert("primary_reads_enabled".into(), serde_json::json!(cfg.pools[0].primary_reads_enabled));
    spec.params.insert("query_parser_enabled".into(), serde_json::json!(cfg.pools[0].query_parser_enabled));
    spec.params.insert("offline".into(), serde_json::json!(offline));
    spec.family = format!("commands/shards{}{}", nshards, if paused { "/pool_paused" } else if offline { "/no_server_reachable" } else { "" });
    spec.oracles = vec!["c13_commands".into(), "liveness".into()];
    spec
}

// ------------------------------------------------------------------------------------------
// C06: shards
// ------------------------------------------------------------------------------------------

fn key(rng: &mut Rng) -> i64 {
    match rng.below(12) {
        0 => 0,
        1 => 1,
        2 => -1,
        3 => i64::MAX,
        4 => i64::MIN + 1,
        5 => i32::MAX as i64,
        6 => i32::MIN as i64,
        7 => (i32::MAX as i64) + 1,
        8 => (rng.next_u64() >> 1) as i64,
        9 => -((rng.next_u64() >> 1) as i64),
        10 => rng.range(0, 100) as i64,
        _ => rng.next_u64() as i64 >> rng.below(48),
    }
}

/// C06: every routing path of a sharding key (SET SHARDING KEY, SET SHARD, the two comment
/// regexes, a literal equated with the automatic sharding key in SELECT/INSERT/UPDATE/DELETE/JOIN,
/// bound text and binary parameters), stickiness between them, out-of-range SET SHARD; shard
/// counts 1-6, both functions; in every fourth run a whole shard is unreachable.
pub fn c06(rng: &mut Rng, thorough: bool, idx: u64) -> Spec {
    // (more than ten now and then: shard "10" sorts before shard "2" as text)
    let nshards = if idx % 16 == 5 { rng.range(11, 13) as usize } else { *rng.pick(&[1usize, 2, 2, 3, 3, 4, 5, 6]) };
    let replicas = rng.range(0, 1) as usize;
    let mut cfg = sharded_pool("transaction", rng.range(1, 3) as u32, nshards, replicas);
    cfg.set("connect_timeout", 1500);
    cfg.set("ban_time", 1);
    let function = rng.pick(&["pg_bigint_hash", "pg_bigint_hash", "sha1"]).to_string();
    cfg.pools[0].sharding_function = function.clone();
    cfg.pools[0].query_parser_enabled = true;
    cfg.pools[0].rw_split = true;
    // without replicas a read must be allowed on the primary, or nothing can serve it
    cfg.pools[0].primary_reads_enabled = replicas == 0 || rng.chance(0.5);
    cfg.pools[0].extra.push("automatic_sharding_key = \"data.id\"".into());
    cfg.pools[0].extra.push("sharding_key_regex = '/\\* sharding_key: (\\d+) \\*/'".into());
    cfg.pools[0].extra.push("shard_id_regex = '/\\* shard_id: (\\d+) \\*/'".into());
    let default_shard = if rng.chance(0.7) { format!("shard_{}", rng.below(nshards as u64)) } else { "random".into() };
    cfg.pools[0].extra.push(format!("default_shard = \"{}\"", default_shard));
    let dead_shard: Option<usize> = if idx % 4 == 3 && nshards > 1 { Some(rng.below(nshards as u64) as usize) } else { None };
    let nclients = rng.range(1, 3) as u32;
    let mut plan = serde_json::Map::new();
    let mut clients = Vec::new();
    // every fifth run: the statement cache is on and keyed statements are also prepared under a name
    let stmt_cache = idx % 5 == 2;
    if stmt_cache {
        cfg.pools[0].cache_size = 8;
    }
    let mut named = 0u32;
    for id in 1..=nclients {
        let mut p = Prog::new(id);
        let n = rng.range(4, if thorough { 24 } else { 12 });
        for _ in 0..n {
            p.new_txn();
            match rng.below(14) {
                13 => {
                    // a Bind that cannot be routed (the key parameter is not an integer, or two
                    // keys of different partitions): the selection in force applies, and nothing
                    // of this statement may linger into the next one
                    let t = p.tag();
                    plan.insert(t.clone(), serde_json::json!({"path": "bind_unroutable"}));
                    let (sql, params): (String, Vec<Option<String>>) = if nshards > 1 && rng.chance(0.6) {
                        let k1 = key(rng);
                        let mut k2 = key(rng);
                        let mut guard = 0;
                        while crate::refmodel::partition(&function, k1, nshards) == crate::refmodel::partition(&function, k2, nshards) && guard < 200 {
                            k2 = k2.wrapping_add(1);
                            guard += 1;
                        }
                        (format!("SELECT '{}' FROM data WHERE id = $1 OR id = $2", t), vec![Some(proto::hex(k1.to_string().as_bytes())), Some(proto::hex(k2.to_string().as_bytes()))])
                    } else {
                        (format!("SELECT '{}' FROM data WHERE id = $1 AND v = $2", t), vec![Some(proto::hex(b"not-a-number")), Some(proto::hex(b"abc"))])
                    };
                    p.send(vec![
                        FrontMsg::P { name: String::new(), sql, types: vec![] },
                        FrontMsg::B { portal: String::new(), stmt: String::new(), fmt: vec![0, 0], params, rfmt: vec![], binary_hex: true },
                        FrontMsg::E { portal: String::new(), max: 0 },
                        FrontMsg::S,
                    ]);
                }
                0 | 1 => {
                    let k = key(rng).unsigned_abs() >> 1; // the command takes digits only
                    let q = if rng.chance(0.5) { format!("SET SHARDING KEY TO '{}'", k) } else { format!("set sharding key to {};", k) };
                    p.simple(q);
                }
                2 => {
                    let n = if rng.chance(0.75) { rng.below(nshards as u64) } else { nshards as u64 + rng.below(3) };
                    p.simple(format!("SET SHARD TO '{}'", n));
                }
                3 | 4 => {
                    // no key in the statement: the current selection applies
                    let t = p.tag();
                    plan.insert(t.clone(), serde_json::json!({"path": "sticky"}));
                    let q = match rng.below(3) {
                        0 => format!("SELECT '{}'", t),
                        1 => format!("SELECT '{}' FROM other WHERE x = {}", t, rng.range(0, 50)),
                        _ => format!("UPDATE other SET v = '{}' WHERE x = {}", t, rng.range(0, 50)),
                    };
                    p.simple(q);
                }
                5 => {
                    let k = key(rng).unsigned_abs() >> 1;
                    let t = p.tag();
                    plan.insert(t.clone(), serde_json::json!({"path": "comment_key", "key": k as i64}));
                    p.simple(format!("/* sharding_key: {} */ SELECT '{}'", k, t));
                }
                6 => {
                    let n = rng.below(nshards as u64);
                    let t = p.tag();
                    plan.insert(t.clone(), serde_json::json!({"path": "comment_shard", "shard": n}));
                    p.simple(format!("/* shard_id: {} */ SELECT '{}'", n, t));
                }
                7 | 8 | 9 => {
                    let k = if rng.chance(0.8) { key(rng).unsigned_abs() as i64 >> 1 } else { key(rng) };
                    let t = p.tag();
                    let lit = k.to_string();
                    let shape = rng.below(8);
                    let q = match shape {
                        0 => format!("SELECT '{}' FROM data WHERE id = {}", t, lit),
                        1 => format!("SELECT '{}' FROM data WHERE data.id = {}", t, lit),
                        2 => format!("SELECT '{}' FROM public.data WHERE x = 3 AND id = {} AND y > 2", t, lit),
                        3 => format!("SELECT '{}' FROM \"public\".\"data\" WHERE \"data\".\"id\" = {}", t, lit),
                        4 => format!("INSERT INTO data (id, v) VALUES ({}, '{}')", lit, t),
                        5 => format!("UPDATE data SET v = '{}' WHERE id = {}", t, lit),
                        6 => format!("DELETE FROM data WHERE id = {} AND v <> '{}'", lit, t),
                        _ => format!("SELECT '{}' FROM t2 INNER JOIN data ON data.id = {} AND data.id = t2.data_id", t, lit),
                    };
                    plan.insert(t.clone(), serde_json::json!({"path": if k < 0 { "auto_literal_negative" } else { "auto_literal" }, "key": k, "shape": shape}));
                    p.simple(q);
                }
                _ => {
                    // bound parameter
                    let k = key(rng);
                    let t = p.tag();
                    let two = rng.chance(0.4);
                    let key_first = rng.chance(0.5);
                    let sql = if !two {
                        format!("SELECT '{}' FROM data WHERE id = $1", t)
                    } else if key_first {
                        format!("SELECT '{}' FROM data WHERE id = $1 AND v = $2", t)
                    } else {
                        format!("SELECT '{}' FROM data WHERE v = $1 AND id = $2", t)
                    };
                    let binary = rng.chance(0.5);
                    let (kbytes, width): (Vec<u8>, u32) = if !binary {
                        (k.to_string().into_bytes(), 0)
                    } else if k >= i16::MIN as i64 && k <= i16::MAX as i64 && rng.chance(0.5) {
                        ((k as i16).to_be_bytes().to_vec(), 2)
                    } else if k >= i32::MIN as i64 && k <= i32::MAX as i64 && rng.chance(0.6) {
                        ((k as i32).to_be_bytes().to_vec(), 4)
                    } else {
                        (k.to_be_bytes().to_vec(), 8)
                    };
                    // the other parameter: a word, a number in text, or a binary integer
                    let other_kind = rng.below(3);
                    let (other, other_fmt): (Vec<u8>, i16) = match other_kind {
                        0 => (b"abc".to_vec(), 0),
                        1 => (rng.range(0, 99).to_string().into_bytes(), 0),
                        _ => ((rng.range(0, 99) as i32).to_be_bytes().to_vec(), 1),
                    };
                    let (params, fmt): (Vec<Option<String>>, Vec<i16>) = if !two {
                        (vec![Some(proto::hex(&kbytes))], vec![if binary { 1 } else { 0 }])
                    } else if key_first {
                        (vec![Some(proto::hex(&kbytes)), Some(proto::hex(&other))], vec![if binary { 1 } else { 0 }, other_fmt])
                    } else {
                        (vec![Some(proto::hex(&other)), Some(proto::hex(&kbytes))], vec![other_fmt, if binary { 1 } else { 0 }])
                    };
                    let path = format!("bind_{}{}{}{}", if binary { format!("binary{}", width) } else { "text".into() }, if two { if key_first { "_key_first_of_two" } else { "_key_second_of_two" } } else { "" }, if two { ["_other_word", "_other_number_text", "_other_number_binary"][other_kind as usize] } else { "" }, if k < 0 { "_negative" } else { "" });
                    plan.insert(t.clone(), serde_json::json!({"path": path, "key": k}));
                    if stmt_cache && dead_shard.is_none() && rng.chance(0.5) {
                        // (not with an unreachable shard: a Parse refused for want of a server is
                        // forgotten, and the Bind that follows would be the program's own error)
                        // prepared under a name now (answered from the pooler's cache), executed by
                        // a later Bind, after another keyed statement with another parameter
                        // layout; a keyed statement follows at once, so that nothing depends on
                        // when exactly the selection changed
                        named += 1;
                        let name = format!("k{}_{}", id, named);
                        if let Some(e) = plan.get_mut(&t) {
                            e["named_later"] = serde_json::json!(true);
                        }
                        p.send(vec![FrontMsg::P { name: name.clone(), sql, types: vec![] }, FrontMsg::S]);
                        let keyed = |p: &mut Prog, rng: &mut Rng, plan: &mut serde_json::Map<String, serde_json::Value>| {
                            p.new_txn();
                            let t0 = p.tag();
                            let k0 = key(rng);
                            plan.insert(t0.clone(), serde_json::json!({"path": if k0 < 0 { "bind_text_key_second_of_two_other_word_negative" } else { "bind_text_key_second_of_two_other_word" }, "key": k0}));
                            p.send(vec![
                                FrontMsg::P { name: String::new(), sql: format!("SELECT '{}' FROM data WHERE v = $1 AND id = $2", t0), types: vec![] },
                                FrontMsg::B { portal: String::new(), stmt: String::new(), fmt: vec![0, 0], params: vec![Some(proto::hex(b"abc")), Some(proto::hex(k0.to_string().as_bytes()))], rfmt: vec![], binary_hex: true },
                                FrontMsg::E { portal: String::new(), max: 0 },
                                FrontMsg::S,
                            ]);
                        };
                        keyed(&mut p, rng, &mut plan);
                        p.new_txn();
                        p.send(vec![FrontMsg::B { portal: String::new(), stmt: name, fmt, params, rfmt: vec![], binary_hex: true }, FrontMsg::E { portal: String::new(), max: 0 }, FrontMsg::S]);
                        keyed(&mut p, rng, &mut plan);
                    } else {
                        p.send(vec![
                            FrontMsg::P { name: String::new(), sql, types: vec![] },
                            FrontMsg::B { portal: String::new(), stmt: String::new(), fmt, params, rfmt: vec![], binary_hex: true },
                            FrontMsg::E { portal: String::new(), max: 0 },
                            FrontMsg::S,
                        ]);
                    }
                }
            }
            if rng.chance(0.2) {
                p.think(rng.range(0, 15));
            }
        }
        p.steps.push(Step::Terminate);
        let mut c = client(id, "app", "db", "apppw", rng.range(0, 30), p.steps);
        c.patience_ms = 30_000;
        if dead_shard.is_some() {
            c.start = When::After { ev: "shard_down".into(), delay_ms: rng.range(1, 20) };
        }
        clients.push(c);
    }
    let hosts = cfg.hosts();
    let mut actions = Vec::new();
    if let Some(d) = dead_shard {
        for h in hosts.iter().filter(|h| h.shard == d as i32) {
            actions.push(ActionSpec { at: When::AtMs { ms: 40 }, act: Action::HostMode { host: h.addr.clone(), mode: "refuse".into() } });
            actions.push(ActionSpec { at: When::AtMs { ms: 40 }, act: Action::KillConns { host: h.addr.clone(), how: "rst".into() } });
        }
        actions.push(ActionSpec { at: When::AtMs { ms: 41 }, act: Action::Emit { ev: "shard_down".into() } });
    }
    let net = if rng.chance(0.5) { net_calm() } else { net_swarm(rng) };
    let mut spec = Spec { config_toml: cfg.render(), hosts, net, clients, actions, end: EndSpec { deadline_ms: 900_000, calm_ms: 20 }, ..Default::default() };
    spec.params = params_from(&cfg);
    spec.params.insert("nshards".into(), serde_json::json!(nshards));
    spec.params.insert("sharding_function".into(), serde_json::json!(function));
    spec.params.insert("default_shard".into(), serde_json::json!(default_shard));
    spec.params.insert("dead_shard".into(), serde_json::json!(dead_shard.map(|d| d as i64).unwrap_or(-1)));
    spec.params.insert("c06_plan".into(), serde_json::Value::Object(plan));
    spec.family = format!("shards/n{}/{}{}", nshards, function, if dead_shard.is_some() { "/one_shard_down" } else { "" });
    spec.oracles = vec!["c06_shards".into(), "liveness".into()];
    spec
}

// ------------------------------------------------------------------------------------------
// C05: roles
// ------------------------------------------------------------------------------------------

/// One statement of a known class (by construction). Returns (class, sql).
fn classed_statement(rng: &mut Rng, tag: &str) -> (&'static str, String) {
    match rng.below(46) {
        0 => ("plain_read", format!("SELECT '{}'", tag)),
        1 => ("plain_read", format!("SELECT '{}' FROM t WHERE x = {}", tag, rng.range(0, 9))),
        2 => ("plain_read", format!("SELECT '{}' FROM a JOIN b ON a.id = b.a_id WHERE b.v > 2 ORDER BY 1 LIMIT 5", tag)),
        3 => ("plain_read", format!("WITH c AS (SELECT 1 AS one) SELECT '{}' FROM c", tag)),
        4 => ("plain_read", format!("SELECT '{}' UNION ALL SELECT 'x'", tag)),
        5 => ("plain_read", format!("VALUES ('{}')", tag)),
        6 => ("plain_read", format!("SELECT '{}' FROM (SELECT id FROM t WHERE id IN (SELECT id FROM u)) s", tag)),
        7 => ("plain_read", format!("select count(*), '{}' from t group by 2 having count(*) > 0", tag)),
        8 => ("write", format!("INSERT INTO t (v) VALUES ('{}')", tag)),
        9 => ("write", format!("INSERT INTO t (v) SELECT '{}' FROM u", tag)),
        10 => ("write", format!("UPDATE t SET v = '{}' WHERE id = {}", tag, rng.range(0, 9))),
        11 => ("write", format!("DELETE FROM t WHERE v = '{}'", tag)),
        12 => ("write", format!("INSERT INTO t (id, v) VALUES (1, '{}') ON CONFLICT (id) DO UPDATE SET v = excluded.v RETURNING id", tag)),
        13 => ("write", format!("MERGE INTO t USING s ON t.id = s.id WHEN MATCHED THEN UPDATE SET v = '{}'", tag)),
        14 => ("write", format!("TRUNCATE TABLE t /* {} */", tag)),
        15 => ("ddl", format!("CREATE TABLE IF NOT EXISTS n (id int, v text DEFAULT '{}')", tag)),
        16 => ("ddl", format!("DROP TABLE IF EXISTS n /* {} */", tag)),
        17 => ("ddl", format!("ALTER TABLE t ADD COLUMN c int /* {} */", tag)),
        18 => ("ddl", format!("CREATE INDEX i ON t (v) /* {} */", tag)),
        19 => ("ddl", format!("CREATE VIEW vw AS SELECT '{}' AS v", tag)),
        20 => ("utility", format!("EXPLAIN ANALYZE DELETE FROM t WHERE v = '{}'", tag)),
        21 => ("utility", format!("LOCK TABLE t IN ACCESS EXCLUSIVE MODE /* {} */", tag)),
        22 => ("utility", format!("CALL p('{}')", tag)),
        23 => ("utility", format!("COMMENT ON TABLE t IS '{}'", tag)),
        24 => ("utility", format!("GRANT SELECT ON t TO public /* {} */", tag)),
        25 => ("utility", format!("ANALYZE t /* {} */", tag)),
        26 => ("utility", format!("SET search_path TO '{}'", tag)),
        27 => ("utility", format!("COPY t TO STDOUT /* {} */", tag)),
        28 => ("dm_cte", format!("WITH d AS (DELETE FROM t WHERE v = '{}' RETURNING *) SELECT * FROM d", tag)),
        29 => ("dm_cte", format!("WITH i AS (INSERT INTO t (v) VALUES ('{}') RETURNING id) SELECT id FROM i", tag)),
        30 => ("dm_cte", format!("WITH u AS (UPDATE t SET v = '{}' RETURNING id) SELECT count(*) FROM u", tag)),
        31 => ("lock", format!("SELECT '{}' FROM t WHERE id = 1 FOR UPDATE", tag)),
        32 => ("lock", format!("SELECT '{}' FROM t FOR SHARE", tag)),
        33 => ("lock", format!("SELECT '{}' FROM t FOR NO KEY UPDATE SKIP LOCKED", tag)),
        34 => ("nested_lock", format!("SELECT '{}' FROM (SELECT id FROM t FOR UPDATE) s", tag)),
        35 => ("select_into", format!("SELECT '{}' AS v INTO n FROM t", tag)),
        36 => ("multi_with_write", format!("SELECT '{}'; INSERT INTO t (v) VALUES ('x')", tag)),
        37 => ("multi_with_write", format!("UPDATE t SET v = 'y'; SELECT '{}'", tag)),
        38 => ("multi_reads", format!("SELECT 1; SELECT '{}'", tag)),
        // writes whose shard cannot be inferred (they assign the sharding key, or touch two keys)
        42 => ("write", format!("UPDATE data SET id = 5, v = '{}' WHERE id = 6", tag)),
        43 => ("write", format!("INSERT INTO data (id, v) VALUES (1, '{}'), (2, 'x'), (3, 'y'), (4, 'z')", tag)),
        // a read and a write on keys of different partitions in one message
        44 => ("multi_with_write", format!("SELECT '{}' FROM data WHERE id = 1; UPDATE data SET v = 'x' WHERE id = 2; UPDATE data SET v = 'y' WHERE id = 3", tag)),
        45 => ("multi_with_write", format!("SELECT '{}' FROM data WHERE id = 7; DELETE FROM data WHERE id = 8", tag)),
        40 => ("multi_lock_then_read", format!("SELECT '{}' FROM t WHERE id = 1 FOR UPDATE; SELECT 1", tag)),
        41 => ("multi_with_write", format!("WITH u AS (UPDATE t SET v = 'z' RETURNING id) SELECT '{}' FROM u; SELECT 2", tag)),
        _ => ("write", format!("DELETE FROM t USING u WHERE t.id = u.id AND u.v = '{}'", tag)),
    }
}

/// C05: one shard with a primary and 1-2 replicas, read/write splitting on; clients send
/// statements of every class in simple and extended protocol, explicit transactions, SET SERVER
/// ROLE / SET PRIMARY READS in between; every fourth run takes all replicas or the primary away.
pub fn c05(rng: &mut Rng, thorough: bool, idx: u64) -> Spec {
    let replicas = rng.range(1, 2) as usize;
    let nclients = rng.range(1, 3) as u32;
    // a third of the runs: two shards and no shard selected by anybody (default_shard decides);
    // the role still has to be honoured
    let nshards = if rng.chance(0.33) { 2 } else { 1 };
    // (transaction mode only: in session mode a client keeps the server of its first statement for
    // the whole connection, as documented and as C01 demands, so nothing is decided per transaction)
    let mut cfg = sharded_pool("transaction", nclients + 1, nshards, replicas);
    if nshards > 1 {
        cfg.pools[0].extra.push(format!("default_shard = \"{}\"", rng.pick(&["random", "shard_0", "shard_1"])));
    }
    let auto_key = rng.chance(0.3);
    if auto_key {
        cfg.pools[0].extra.push(format!("automatic_sharding_key = \"{}\"", rng.pick(&["data.id", "*.id"])));
    }
    cfg.set("connect_timeout", 1200);
    cfg.set("healthcheck_timeout", 300);
    cfg.set("ban_time", 1);
    // read/write splitting needs the parser; a fifth of the runs have neither (explicit roles only)
    cfg.pools[0].query_parser_enabled = rng.chance(0.8);
    cfg.pools[0].rw_split = cfg.pools[0].query_parser_enabled;
    cfg.pools[0].primary_reads_enabled = rng.chance(0.5);
    cfg.pools[0].default_role = rng.pick(&["any", "any", "primary", "replica"]).to_string();
    cfg.pools[0].lb = rng.pick(&["random", "loc"]).to_string();
    let outage: &str = if idx % 4 == 3 { *rng.pick(&["replicas_down", "primary_down"]) } else { "none" };
    let mut plan = serde_json::Map::new();
    let mut clients = Vec::new();
    // every fifth run: the statement cache is on and statements are also prepared under a name
    let stmt_cache = idx % 5 == 1;
    if stmt_cache {
        cfg.pools[0].cache_size = 8;
    }
    let mut named = 0u32;
    for id in 1..=nclients {
        let mut p = Prog::new(id);
        let n = rng.range(5, if thorough { 26 } else { 14 });
        for _ in 0..n {
            p.new_txn();
            let r = rng.below(100);
            if r < 12 {
                let role = *rng.pick(&["primary", "replica", "any", "auto", "default"]);
                p.simple(format!("SET SERVER ROLE TO '{}'", role));
            } else if r < 18 {
                p.simple(format!("SET PRIMARY READS TO '{}'", rng.pick(&["on", "off", "default"])));
            } else if r < 30 {
                // explicit transaction
                let t = p.tag();
                plan.insert(t.clone(), serde_json::json!({"class": "txn_start"}));
                p.simple(format!("{} /* {} */", rng.pick(&["BEGIN", "START TRANSACTION", "BEGIN ISOLATION LEVEL REPEATABLE READ", "begin read only"]), t));
                for _ in 0..rng.range(1, 3) {
                    let t = p.tag();
                    let (class, sql) = classed_statement(rng, &t);
                    plan.insert(t.clone(), serde_json::json!({"class": class, "in_txn": true}));
                    p.simple(sql);
                }
                let t = p.tag();
                plan.insert(t.clone(), serde_json::json!({"class": "txn_end", "in_txn": true}));
                p.simple(format!("{} /* {} */", rng.pick(&["COMMIT", "ROLLBACK", "END"]), t));
            } else if r < 80 {
                let t = p.tag();
                let (class, sql) = classed_statement(rng, &t);
                plan.insert(t.clone(), serde_json::json!({"class": class}));
                p.simple(sql);
            } else if stmt_cache && r < 90 {
                // a named statement prepared now (the pooler answers the Parse from its cache, no
                // server is involved yet) and executed by a later Bind, after another statement
                // that may pull the role the other way; no SET in between
                let t = p.tag();
                let (mut class, mut sql) = classed_statement(rng, &t);
                while class.starts_with("multi") {
                    let x = classed_statement(rng, &t);
                    class = x.0;
                    sql = x.1;
                }
                named += 1;
                let name = format!("n{}", named);
                plan.insert(t.clone(), serde_json::json!({"class": class, "extended": true, "named_later_bind": true}));
                p.send(vec![FrontMsg::P { name: name.clone(), sql, types: vec![] }, FrontMsg::S]);
                if rng.chance(0.7) {
                    p.new_txn();
                    let t0 = p.tag();
                    let (mut c0, mut s0) = classed_statement(rng, &t0);
                    while c0.starts_with("multi") {
                        let x = classed_statement(rng, &t0);
                        c0 = x.0;
                        s0 = x.1;
                    }
                    plan.insert(t0.clone(), serde_json::json!({"class": c0, "extended": true}));
                    p.send(vec![
                        FrontMsg::P { name: String::new(), sql: s0, types: vec![] },
                        FrontMsg::B { portal: String::new(), stmt: String::new(), fmt: vec![], params: vec![], rfmt: vec![], binary_hex: false },
                        FrontMsg::E { portal: String::new(), max: 0 },
                        FrontMsg::S,
                    ]);
                }
                p.new_txn();
                p.send(vec![
                    FrontMsg::B { portal: String::new(), stmt: name, fmt: vec![], params: vec![], rfmt: vec![], binary_hex: false },
                    FrontMsg::E { portal: String::new(), max: 0 },
                    FrontMsg::S,
                ]);
            } else {
                // extended protocol, anonymous statement (single statement classes only)
                let t = p.tag();
                let (mut class, mut sql) = classed_statement(rng, &t);
                while class.starts_with("multi") {
                    let x = classed_statement(rng, &t);
                    class = x.0;
                    sql = x.1;
                }
                let mut msgs = Vec::new();
                let shape = rng.below(4);
                if shape == 1 {
                    // drivers piggyback the Close of an evicted statement on the next query
                    msgs.push(FrontMsg::C { kind: "S".into(), name: format!("evicted_{}", rng.range(0, 9)) });
                }
                if shape == 3 && class != "plain_read" {
                    // pipelined the other way round: the statement proper first, a plain read last
                    let t0 = p.tag();
                    plan.insert(t.clone(), serde_json::json!({"class": class, "extended": true}));
                    plan.insert(t0.clone(), serde_json::json!({"class": "plain_read", "extended": true}));
                    msgs.push(FrontMsg::P { name: String::new(), sql: sql.clone(), types: vec![] });
                    msgs.push(FrontMsg::B { portal: String::new(), stmt: String::new(), fmt: vec![], params: vec![], rfmt: vec![], binary_hex: false });
                    msgs.push(FrontMsg::E { portal: String::new(), max: 0 });
                    msgs.push(FrontMsg::P { name: String::new(), sql: format!("SELECT '{}'", t0), types: vec![] });
                    msgs.push(FrontMsg::B { portal: String::new(), stmt: String::new(), fmt: vec![], params: vec![], rfmt: vec![], binary_hex: false });
                    msgs.push(FrontMsg::E { portal: String::new(), max: 0 });
                    msgs.push(FrontMsg::S);
                    p.send(msgs);
                    if rng.chance(0.2) {
                        p.think(rng.range(0, 25));
                    }
                    continue;
                }
                if shape == 2 {
                    // pipelined: a plain read first, then the statement proper, one Sync
                    let t0 = p.tag();
                    plan.insert(t0.clone(), serde_json::json!({"class": if class == "plain_read" { "plain_read" } else { "pipelined_read_then_other" }, "extended": true}));
                    msgs.push(FrontMsg::P { name: String::new(), sql: format!("SELECT '{}'", t0), types: vec![] });
                    msgs.push(FrontMsg::B { portal: String::new(), stmt: String::new(), fmt: vec![], params: vec![], rfmt: vec![], binary_hex: false });
                    msgs.push(FrontMsg::E { portal: String::new(), max: 0 });
                }
                plan.insert(t.clone(), serde_json::json!({"class": class, "extended": true}));
                msgs.push(FrontMsg::P { name: String::new(), sql, types: vec![] });
                msgs.push(FrontMsg::B { portal: String::new(), stmt: String::new(), fmt: vec![], params: vec![], rfmt: vec![], binary_hex: false });
                msgs.push(FrontMsg::E { portal: String::new(), max: 0 });
                msgs.push(FrontMsg::S);
                // tags in message order: the oracle reads the class of the first one
                p.send(msgs);
            }
            if rng.chance(0.2) {
                p.think(rng.range(0, 25));
            }
        }
        p.steps.push(Step::Terminate);
        let mut c = client(id, "app", "db", "apppw", rng.range(0, 30), p.steps);
        c.patience_ms = 30_000;
        if outage != "none" {
            c.start = When::After { ev: "outage".into(), delay_ms: rng.range(1, 20) };
        }
        clients.push(c);
    }
    let hosts = cfg.hosts();
    let mut actions = Vec::new();
    // every seventh run: the pool is rebuilt by a reload (its size changes) while the clients are connected
    if idx % 7 == 6 {
        let mut after = cfg.clone();
        after.pools[0].users[0].pool_size += 1;
        let t = rng.range(40, 250);
        actions.push(ActionSpec { at: When::AtMs { ms: t }, act: Action::SetFile { kind: "data".into(), content: after.render() } });
        let mut a = admin_client(500, "main", When::AtMs { ms: t + rng.range(2, 30) }, &["RELOAD"]);
        let last = a.steps.len() - 1;
        a.steps.insert(last, Step::Emit { ev: "reloaded".into() });
        clients.push(a);
        // every client is connected before the reload and goes on (between two transactions) after it
        for c in clients.iter_mut().filter(|c| c.role != "admin") {
            // a position between transactions: after a step that is not inside BEGIN..COMMIT
            let mut depth = 0i32;
            let mut cut = None;
            for (i, st) in c.steps.iter().enumerate() {
                if let Step::Send { msgs, .. } = st {
                    if let Some(FrontMsg::Q { sql }) = msgs.first() {
                        let up = sql.trim_start().to_ascii_uppercase();
                        if up.starts_with("BEGIN") || up.starts_with("START TRANSACTION") {
                            depth += 1;
                        } else if up.starts_with("COMMIT") || up.starts_with("ROLLBACK") || up.starts_with("END") {
                            depth = 0;
                        }
                    }
                }
                if depth == 0 && i >= 1 && cut.is_none() && rng.chance(0.4) {
                    cut = Some(i + 1);
                }
            }
            if let Some(i) = cut {
                c.steps.insert(i, Step::Wait { ev: "reloaded".into() });
            }
        }
    }
    if outage != "none" {
        for h in hosts.iter().filter(|h| (outage == "replicas_down") == (h.role == "replica")) {
            actions.push(ActionSpec { at: When::AtMs { ms: 40 }, act: Action::HostMode { host: h.addr.clone(), mode: "refuse".into() } });
            actions.push(ActionSpec { at: When::AtMs { ms: 40 }, act: Action::KillConns { host: h.addr.clone(), how: "rst".into() } });
        }
        actions.push(ActionSpec { at: When::AtMs { ms: 41 }, act: Action::Emit { ev: "outage".into() } });
    }
    let net = if rng.chance(0.5) { net_calm() } else { net_swarm(rng) };
    let mut spec = Spec { config_toml: cfg.render(), hosts, net, clients, actions, end: EndSpec { deadline_ms: 900_000, calm_ms: 20 }, ..Default::default() };
    spec.params = params_from(&cfg);
    spec.params.insert("default_role".into(), serde_json::json!(cfg.pools[0].default_role));
    spec.params.insert("primary_reads_enabled".into(), serde_json::json!(cfg.pools[0].primary_reads_enabled));
    spec.params.insert("query_parser_enabled".into(), serde_json::json!(cfg.pools[0].query_parser_enabled));
    spec.params.insert("outage".into(), serde_json::json!(outage));
    spec.params.insert("rw_split".into(), serde_json::json!(cfg.pools[0].rw_split));
    spec.params.insert("c05_plan".into(), serde_json::Value::Object(plan));
    spec.family = format!("roles/{}{}", if cfg.pools[0].query_parser_enabled { "parser_on" } else { "parser_off" }, if outage != "none" { format!("/{}", outage) } else { String::new() });
    spec.oracles = vec!["c05_roles".into(), "liveness".into()];
    spec
}

// ------------------------------------------------------------------------------------------
// C19: plugins
// ------------------------------------------------------------------------------------------

const INTERCEPT_RULE: &str = "select current_database() as a, current_schemas(false) as b";

fn spell_table(rng: &mut Rng, listed: bool) -> (String, &'static str) {
    let base = if listed { *rng.pick(&["secret", "pg_user"]) } else { *rng.pick(&["open_t", "secrets", "my_secret"]) };
    match rng.below(9) {
        8 => (format!("db.public.{}", base), "database_qualified"),
        0 | 1 => (base.to_string(), "plain"),
        2 => (base.to_ascii_uppercase(), "upper"),
        3 => {
            let mut c = base.chars();
            let f = c.next().unwrap().to_ascii_uppercase();
            (format!("{}{}", f, c.as_str()), "capitalised")
        }
        4 => (format!("\"{}\"", base), "quoted"),
        5 => (format!("public.{}", base), "qualified"),
        6 => (format!("\"public\".\"{}\"", base), "qualified_quoted"),
        _ => (format!("PUBLIC.{}", base.to_ascii_uppercase()), "qualified_upper"),
    }
}

/// A statement that mentions relation `rel` in one of the positions a relation can appear in.
fn relation_statement(rng: &mut Rng, rel: &str, tag: &str) -> (String, &'static str) {
    match rng.below(20) {
        19 => (format!("SELECT '{}' FROM ONLY {}", tag, rel), "from_only"),
        17 => (format!("INSERT INTO open_t TABLE {} /* {} */", rel, tag), "insert_table_expression"),
        18 => (format!("SELECT '{}' UNION ALL TABLE {}", tag, rel), "union_table_expression"),
        12 => (format!("COPY {} TO STDOUT /* {} */", rel, tag), "copy_to"),
        13 => (format!("COPY (SELECT '{}' FROM {}) TO STDOUT", tag, rel), "copy_query"),
        14 => (format!("TRUNCATE {} /* {} */", rel, tag), "truncate"),
        15 => (format!("TABLE {} /* {} */", rel, tag), "table_statement"),
        16 => (format!("MERGE INTO open_t o USING {} s ON s.id = o.id WHEN MATCHED THEN UPDATE SET v = '{}'", rel, tag), "merge_using"),
        0 => (format!("SELECT '{}' FROM {}", tag, rel), "from"),
        1 => (format!("SELECT '{}' FROM open_t o JOIN {} s ON s.id = o.id", tag, rel), "join"),
        2 => (format!("SELECT '{}' FROM open_t WHERE id IN (SELECT id FROM {})", tag, rel), "subquery_in"),
        3 => (format!("SELECT '{}' FROM (SELECT * FROM {}) s", tag, rel), "subquery_from"),
        4 => (format!("WITH c AS (SELECT * FROM {}) SELECT '{}' FROM c", rel, tag), "cte"),
        5 => (format!("INSERT INTO {} (v) VALUES ('{}')", rel, tag), "insert_target"),
        6 => (format!("UPDATE {} SET v = '{}'", rel, tag), "update_target"),
        7 => (format!("DELETE FROM {} WHERE v = '{}'", rel, tag), "delete_target"),
        8 => (format!("DELETE FROM open_t USING {} s WHERE s.v = '{}'", rel, tag), "delete_using"),
        9 => (format!("INSERT INTO open_t (v) SELECT '{}' FROM {}", tag, rel), "insert_select"),
        10 => (format!("SELECT '{}' WHERE EXISTS (SELECT 1 FROM {})", tag, rel), "exists"),
        _ => (format!("UPDATE open_t SET v = '{}' FROM {} s WHERE s.id = open_t.id", tag, rel), "update_from"),
    }
}

fn ext(sql: String, name: &str) -> Vec<FrontMsg> {
    vec![
        FrontMsg::P { name: name.into(), sql, types: vec![] },
        FrontMsg::B { portal: String::new(), stmt: name.into(), fmt: vec![], params: vec![], rfmt: vec![], binary_hex: false },
        FrontMsg::E { portal: String::new(), max: 0 },
    ]
}

/// C19: table_access with two listed tables, an intercept rule, the query logger; statements that
/// mention a listed or an unlisted relation in 12 positions and 7 spellings, alone, in
/// multi-statement messages, in Parse..Sync batches with several Parses, inside transactions,
/// with named statements executed later (statement cache on); control runs with plugins off.
pub fn c19(rng: &mut Rng, thorough: bool, idx: u64) -> Spec {
    let plugins_on = idx % 4 != 3;
    // every sixth run: the plugins are switched on by a reload while the clients are connected and idle
    let reload_enables = idx % 6 == 5;
    let plugins_on = if reload_enables { true } else { plugins_on };
    let cache_on = rng.chance(0.4);
    let mut cfg = single_pool("transaction", 2, 0);
    cfg.set("connect_timeout", 5000);
    cfg.pools[0].query_parser_enabled = true;
    if cache_on {
        cfg.pools[0].cache_size = 8;
    }
    let per_pool = rng.chance(0.5);
    let prefix = if per_pool { "pools.db.plugins" } else { "plugins" };
    let ql = rng.chance(0.5);
    let body_of = |on: bool| {
        format!(
            "\n[{p}]\n\n[{p}.query_logger]\nenabled = {ql}\n\n[{p}.table_access]\nenabled = {on}\ntables = [\"secret\", \"pg_user\"]\n\n[{p}.intercept]\nenabled = {on}\n\n[{p}.intercept.queries.0]\nquery = \"{rule}\"\nschema = [[\"a\", \"text\"], [\"b\", \"text\"]]\nresult = [[\"${{DATABASE}}\", \"{{public}}\"]]\n",
            p = prefix,
            ql = ql,
            on = on,
            rule = INTERCEPT_RULE
        )
    };
    let mut cfg_after = cfg.clone();
    if per_pool {
        cfg.pools[0].plugins = Some(body_of(plugins_on && !reload_enables));
        cfg_after.pools[0].plugins = Some(body_of(true));
    } else {
        cfg.plugins = Some(body_of(plugins_on && !reload_enables));
        cfg_after.plugins = Some(body_of(true));
    }
    let nclients = rng.range(1, 2) as u32;
    let mut plan = serde_json::Map::new();
    let mut clients = Vec::new();
    for id in 1..=nclients {
        let mut p = Prog::new(id);
        let n = rng.range(4, if thorough { 20 } else { 10 });
        let mut named = 0u32;
        if reload_enables {
            // connected and served before the reload, idle while it happens
            p.new_txn();
            let t = p.tag();
            plan.insert(t.clone(), serde_json::json!({"listed": false, "companion": true}));
            p.simple(format!("SELECT '{}' FROM open_t", t));
            p.steps.push(Step::Wait { ev: "reloaded".into() });
            p.think(rng.range(0, 30));
        }
        for _ in 0..n {
            p.new_txn();
            let listed = rng.chance(0.6);
            let (rel, spelling) = spell_table(rng, listed);
            let t = p.tag();
            let (sql, position) = relation_statement(rng, &rel, &t);
            let mut entry = serde_json::json!({"listed": listed, "spelling": spelling, "position": position});
            match rng.below(10) {
                0 | 1 | 2 => {
                    entry["where"] = serde_json::json!("simple");
                    plan.insert(t, entry);
                    p.simple(sql);
                }
                3 => {
                    // multi-statement message; the statement is first, in the middle or last
                    let t2 = p.tag();
                    let other = format!("SELECT '{}'", t2);
                    plan.insert(t2, serde_json::json!({"listed": false, "companion": true}));
                    let msg = match rng.below(3) {
                        0 => format!("{}; {}", sql, other),
                        1 => format!("{}; {}", other, sql),
                        _ => format!("SELECT 1; {}; {}", sql, other),
                    };
                    entry["where"] = serde_json::json!("multi_statement");
                    plan.insert(t, entry);
                    p.simple(msg);
                }
                4 => {
                    // inside a transaction, simple protocol
                    let tb = p.tag();
                    plan.insert(tb.clone(), serde_json::json!({"listed": false, "companion": true}));
                    p.simple(format!("BEGIN /* {} */", tb));
                    entry["where"] = serde_json::json!("in_transaction_simple");
                    plan.insert(t, entry);
                    p.simple(sql);
                    let tc = p.tag();
                    plan.insert(tc.clone(), serde_json::json!({"listed": false, "companion": true}));
                    p.simple(format!("ROLLBACK /* {} */", tc));
                }
                5 | 6 => {
                    entry["where"] = serde_json::json!("extended");
                    plan.insert(t, entry);
                    let mut m = ext(sql, "");
                    m.push(FrontMsg::S);
                    p.send(m);
                }
                7 => {
                    // batch with several Parses before one Sync: the statement first or last
                    let t2 = p.tag();
                    plan.insert(t2.clone(), serde_json::json!({"listed": false, "companion": true}));
                    let other = format!("SELECT '{}'", t2);
                    let first = rng.chance(0.5);
                    entry["where"] = serde_json::json!(if first { "batch_first" } else { "batch_last" });
                    plan.insert(t, entry);
                    let mut m = Vec::new();
                    if first {
                        m.extend(ext(sql, ""));
                        m.extend(ext(other, ""));
                    } else {
                        m.extend(ext(other, ""));
                        m.extend(ext(sql, ""));
                    }
                    m.push(FrontMsg::S);
                    p.send(m);
                }
                8 => {
                    // inside a transaction, extended protocol
                    let tb = p.tag();
                    plan.insert(tb.clone(), serde_json::json!({"listed": false, "companion": true}));
                    p.simple(format!("BEGIN /* {} */", tb));
                    entry["where"] = serde_json::json!("in_transaction_extended");
                    plan.insert(t, entry);
                    let mut m = ext(sql, "");
                    m.push(FrontMsg::S);
                    p.send(m);
                    let tc = p.tag();
                    plan.insert(tc.clone(), serde_json::json!({"listed": false, "companion": true}));
                    p.simple(format!("ROLLBACK /* {} */", tc));
                }
                _ => {
                    // named statement prepared now, executed in a later batch
                    named += 1;
                    let name = format!("n{}", named);
                    entry["where"] = serde_json::json!("named_parse_then_later_bind");
                    plan.insert(t, entry);
                    p.send(vec![FrontMsg::P { name: name.clone(), sql, types: vec![] }, FrontMsg::S]);
                    p.think(rng.range(0, 10));
                    p.send(vec![
                        FrontMsg::B { portal: String::new(), stmt: name.clone(), fmt: vec![], params: vec![], rfmt: vec![], binary_hex: false },
                        FrontMsg::E { portal: String::new(), max: 0 },
                        FrontMsg::S,
                    ]);
                }
            }
            if rng.chance(0.25) {
                // the intercepted query, in some spelling
                p.new_txn();
                let t = p.tag();
                let q = match rng.below(4) {
                    0 => format!("{} /* {} */", INTERCEPT_RULE, t),
                    1 => format!("SELECT current_database() AS a, current_schemas(false) AS b /* {} */", t),
                    2 => format!("select   current_database()   as a ,\n current_schemas(false) as b -- {}", t),
                    _ => format!("/* {} */ Select Current_Database() As a, Current_Schemas(FALSE) As b;", t),
                };
                plan.insert(t, serde_json::json!({"intercept": true}));
                if rng.chance(0.3) {
                    // ... through the extended protocol
                    let mut m = ext(q, "");
                    m.push(FrontMsg::S);
                    p.send(m);
                } else {
                    p.simple(q);
                }
            }
            if rng.chance(0.2) {
                p.think(rng.range(0, 15));
            }
        }
        p.steps.push(Step::Terminate);
        let mut c = client(id, "app", "db", "apppw", rng.range(0, 30), p.steps);
        c.patience_ms = 30_000;
        clients.push(c);
    }
    let mut actions = Vec::new();
    if reload_enables {
        let t = rng.range(60, 200);
        actions.push(ActionSpec { at: When::AtMs { ms: t }, act: Action::SetFile { kind: "data".into(), content: cfg_after.render() } });
        let mut a = admin_client(500, "main", When::AtMs { ms: t + rng.range(5, 40) }, &["RELOAD"]);
        let last = a.steps.len() - 1;
        a.steps.insert(last, Step::Emit { ev: "reloaded".into() });
        clients.push(a);
    }
    let net = if rng.chance(0.5) { net_calm() } else { net_swarm(rng) };
    let mut spec = Spec { config_toml: cfg.render(), hosts: cfg.hosts(), net, clients, actions, end: EndSpec { deadline_ms: 900_000, calm_ms: 20 }, ..Default::default() };
    spec.params = params_from(&cfg);
    spec.params.insert("plugins_on".into(), serde_json::json!(plugins_on));
    spec.params.insert("reload_enables".into(), serde_json::json!(reload_enables));
    spec.params.insert("cache_on".into(), serde_json::json!(cache_on));
    spec.params.insert("c19_plan".into(), serde_json::Value::Object(plan));
    spec.family = format!("plugins/{}{}{}", if reload_enables { "enabled_by_reload" } else if plugins_on { "enabled" } else { "disabled" }, if per_pool { "/per_pool" } else { "/global" }, if cache_on { "/cache" } else { "" });
    spec.oracles = vec!["c19_plugins".into(), "liveness".into()];
    spec
}
