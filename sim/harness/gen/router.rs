//! Router families: C13 (command language), C05 (roles), C06 (shards), C19 (plugins).

use super::*;

fn respell(rng: &mut Rng, s: &str) -> String {
    // random letter case
    match rng.below(4) {
        0 => s.to_ascii_lowercase(),
        1 => s.to_ascii_uppercase(),
        2 => s.to_string(),
        _ => s.chars().map(|c| if rng.chance(0.5) { c.to_ascii_uppercase() } else { c.to_ascii_lowercase() }).collect(),
    }
}

fn decorate(rng: &mut Rng, core: &str) -> String {
    // commands have no length limit: sometimes pad beyond any plausible buffer or search limit
    let long = rng.chance(0.06);
    let lead = " ".repeat(if long && rng.chance(0.5) { rng.range(900, 6000) as usize } else { *rng.pick(&[0usize, 0, 1, 3]) });
    let mid = " ".repeat(*rng.pick(&[0usize, 0, 1, 2]));
    let semi = if rng.chance(0.5) { ";" } else { "" };
    let trail = " ".repeat(if long { rng.range(900, 9000) as usize } else { *rng.pick(&[0usize, 0, 1, 4]) });
    format!("{}{}{}{}{}", lead, core, mid, semi, trail)
}

fn quoted(rng: &mut Rng, v: &str, mandatory: bool) -> String {
    if mandatory || rng.chance(0.5) {
        format!("'{}'", v)
    } else {
        v.to_string()
    }
}

fn number(rng: &mut Rng, nshards: usize) -> String {
    match rng.below(10) {
        0 => "0".into(),
        1 => (nshards - 1).to_string(),
        2 => nshards.to_string(),
        3 => format!("{}", rng.range(0, 20)),
        4 => "9223372036854775807".into(),
        5 => "9223372036854775808".into(),
        6 => "18446744073709551616".into(),
        7 => {
            let n = rng.range(20, 60) as usize;
            (0..n).map(|_| char::from(b'0' + rng.below(10) as u8)).collect()
        }
        8 => format!("{}{}", "0".repeat(if rng.chance(0.3) { rng.range(900, 5000) as usize } else { 3 }), rng.range(0, 5)),
        _ => format!("{}", rng.next_u64() >> rng.below(63)),
    }
}

/// A valid command in one of its documented spellings.
fn valid_command(rng: &mut Rng, nshards: usize) -> String {
    let core = match rng.below(9) {
        0 | 1 => {
            let head = respell(rng, "SET SHARD TO");
            let v = if rng.chance(0.15) {
                respell(rng, "ANY")
            } else if rng.chance(0.7) {
                rng.below(nshards as u64 + 1).to_string()
            } else {
                number(rng, nshards)
            };
            format!("{} {}", head, quoted(rng, &v, false))
        }
        2 | 3 => {
            let head = respell(rng, "SET SHARDING KEY TO");
            let v = number(rng, nshards);
            format!("{} {}", head, quoted(rng, &v, false))
        }
        4 => {
            let head = respell(rng, "SET SERVER ROLE TO");
            let w = *rng.pick(&["primary", "replica", "any", "auto", "default"]);
            let v = respell(rng, w);
            format!("{} {}", head, quoted(rng, &v, true))
        }
        5 => {
            let head = respell(rng, "SET PRIMARY READS TO");
            let w = *rng.pick(&["on", "off", "default"]);
            let v = respell(rng, w);
            format!("{} {}", head, quoted(rng, &v, false))
        }
        6 => respell(rng, "SHOW SHARD"),
        7 => respell(rng, "SHOW SERVER ROLE"),
        _ => respell(rng, "SHOW PRIMARY READS"),
    };
    decorate(rng, &core)
}

/// A query that merely looks like or contains a command; the tag (when the shape allows one)
/// makes the forwarded copy attributable.
fn near_miss(rng: &mut Rng, nshards: usize, tag: &str) -> String {
    let cmd = valid_command(rng, nshards).trim().trim_end_matches(';').trim().to_string();
    match rng.below(14) {
        0 => format!("{} /* {} */", cmd, tag),
        1 => format!("/* {} */ {}", tag, cmd),
        2 => format!("{}; SELECT '{}'", cmd, tag),
        3 => format!("SELECT '{}'; {}", tag, cmd),
        4 => format!("SELECT '{}', '{}'", cmd.replace('\'', "''"), tag),
        5 => format!("{} -- {}", cmd, tag),
        6 => format!("{};;", cmd),
        7 => format!("SET SHARD TO -{} /* {} */", rng.range(1, 9), tag),
        8 => format!("SET SHARD = {} /* {} */", rng.range(0, 3), tag),
        9 => format!("SET SHARDING KEY TO 'k{}' /* {} */", rng.range(0, 99), tag),
        10 => format!("SHOW SHARDS /* {} */", tag),
        11 => format!("SET SERVER ROLE TO 'master' /* {} */", tag),
        12 => format!("SET PRIMARY READS TO 'yes' /* {} */", tag),
        _ => format!("EXPLAIN {} /* {} */", cmd, tag),
    }
}

/// Undocumented spellings: accepted either way, counted.
fn grey(rng: &mut Rng, nshards: usize) -> String {
    let n = rng.below(nshards as u64 + 1);
    match rng.below(6) {
        0 => format!("SET  SHARD TO {}", n),
        1 => format!("SET SHARD TO {}\n", n),
        2 => format!("SET\tSHARD TO {}", n),
        3 => format!("SET SHARD TO '{}", n),
        4 => format!("SET SHARD TO {}'", n),
        _ => "SET SERVER ROLE TO primary".to_string(),
    }
}

/// C13: 1-3 clients, each a sequence of commands in all spellings, near misses, grey spellings
/// and ordinary tagged statements, outside transactions in a transaction-mode pool; numeric
/// arguments of any length; a third of the runs lose every server after start-up (commands must
/// still be answered by the pooler alone).
pub fn c13(rng: &mut Rng, thorough: bool, idx: u64) -> Spec {
    let nshards = rng.range(1, 4) as usize;
    let replicas = rng.range(0, 1) as usize;
    let mut cfg = sharded_pool("transaction", rng.range(1, 3) as u32, nshards, replicas);
    cfg.set("connect_timeout", 1500);
    cfg.set("ban_time", 1);
    cfg.pools[0].sharding_function = rng.pick(&["pg_bigint_hash", "sha1"]).to_string();
    cfg.pools[0].default_role = rng.pick(&["any", "any", "primary", "replica"]).to_string();
    if replicas == 0 && cfg.pools[0].default_role == "replica" {
        cfg.pools[0].default_role = "any".into();
    }
    cfg.pools[0].primary_reads_enabled = rng.chance(0.5);
    cfg.pools[0].query_parser_enabled = rng.chance(0.3);
    let offline = idx % 3 == 2;
    let nclients = rng.range(1, 3) as u32;
    let mut clients = Vec::new();
    for id in 1..=nclients {
        let mut p = Prog::new(id);
        let n = rng.range(4, if thorough { 30 } else { 14 });
        for _ in 0..n {
            p.new_txn();
            let r = rng.below(100);
            if r < 60 {
                let c = valid_command(rng, nshards);
                p.simple(c);
            } else if r < 80 && !offline {
                let t = p.tag();
                let c = near_miss(rng, nshards, &t);
                p.simple(c);
            } else if r < 88 && !offline {
                let c = grey(rng, nshards);
                p.simple(c);
            } else if !offline {
                let s = p.select(1, 0, "");
                p.simple(s);
            } else {
                let c = valid_command(rng, nshards);
                p.simple(c);
            }
            if rng.chance(0.3) {
                p.think(rng.range(0, 20));
            }
        }
        p.steps.push(Step::Terminate);
        let mut c = client(id, "app", "db", "apppw", rng.range(0, 30), p.steps);
        if offline {
            c.start = When::After { ev: "servers_down".into(), delay_ms: rng.range(1, 30) };
        }
        c.patience_ms = 30_000;
        clients.push(c);
    }
    let hosts = cfg.hosts();
    let mut actions = Vec::new();
    if offline {
        // every server goes away after PgCat has started (the login itself needs none)
        for h in &hosts {
            actions.push(ActionSpec { at: When::AtMs { ms: 50 }, act: Action::HostMode { host: h.addr.clone(), mode: "refuse".into() } });
            actions.push(ActionSpec { at: When::AtMs { ms: 50 }, act: Action::KillConns { host: h.addr.clone(), how: "rst".into() } });
        }
        actions.push(ActionSpec { at: When::AtMs { ms: 51 }, act: Action::Emit { ev: "servers_down".into() } });
    }
    let net = if rng.chance(0.5) { net_calm() } else { net_swarm(rng) };
    let mut spec = Spec { config_toml: cfg.render(), hosts, net, clients, actions, end: EndSpec { deadline_ms: 900_000, calm_ms: 20 }, ..Default::default() };
    spec.params = params_from(&cfg);
    spec.params.insert("nshards".into(), serde_json::json!(nshards));
    spec.params.insert("sharding_function".into(), serde_json::json!(cfg.pools[0].sharding_function));
    spec.params.insert("default_role".into(), serde_json::json!(cfg.pools[0].default_role));
    spec.params.insert("primary_reads_enabled".into(), serde_json::json!(cfg.pools[0].primary_reads_enabled));
    spec.params.insert("query_parser_enabled".into(), serde_json::json!(cfg.pools[0].query_parser_enabled));
    spec.params.insert("offline".into(), serde_json::json!(offline));
    spec.family = format!("commands/shards{}{}", nshards, if offline { "/no_server_reachable" } else { "" });
    spec.oracles = vec!["c13_commands".into(), "liveness".into()];
    spec
}
