//! PgCat configuration builder: renders the TOML PgCat reads through the file seam, and the
//! matching mock hosts and oracle parameters.

use crate::spec::HostSpec;
use std::collections::BTreeMap;

#[derive(Clone, Debug)]
pub struct UserDef {
    pub key: String,
    pub name: String,
    pub password: Option<String>,
    pub pool_size: u32,
    pub min_pool_size: Option<u32>,
    pub statement_timeout: u64,
    pub pool_mode: Option<String>,
    pub server_username: Option<String>,
    pub server_password: Option<String>,
    pub extra: Vec<String>,
}

impl UserDef {
    pub fn new(name: &str, password: &str, pool_size: u32) -> UserDef {
        UserDef { key: "0".into(), name: name.into(), password: Some(password.into()), pool_size, min_pool_size: None, statement_timeout: 0, pool_mode: None, server_username: None, server_password: None, extra: vec![] }
    }
}

#[derive(Clone, Debug)]
pub struct ShardDef {
    pub id: String,
    pub database: String,
    /// (host, port, role)
    pub servers: Vec<(String, u16, String)>,
    /// (host, port, target index)
    pub mirrors: Vec<(String, u16, usize)>,
}

#[derive(Clone, Debug)]
pub struct PoolDef {
    pub name: String,
    pub mode: String,
    pub lb: String,
    pub default_role: String,
    pub query_parser_enabled: bool,
    pub rw_split: bool,
    pub primary_reads_enabled: bool,
    pub sharding_function: String,
    pub cache_size: usize,
    pub users: Vec<UserDef>,
    pub shards: Vec<ShardDef>,
    pub extra: Vec<String>,
    pub plugins: Option<String>,
}

impl PoolDef {
    pub fn simple(name: &str, mode: &str, users: Vec<UserDef>, shards: Vec<ShardDef>) -> PoolDef {
        PoolDef {
            name: name.into(),
            mode: mode.into(),
            lb: "random".into(),
            default_role: "any".into(),
            query_parser_enabled: false,
            rw_split: false,
            primary_reads_enabled: true,
            sharding_function: "pg_bigint_hash".into(),
            cache_size: 0,
            users,
            shards,
            extra: vec![],
            plugins: None,
        }
    }
}

#[derive(Clone, Debug)]
pub struct Cfg {
    pub general: BTreeMap<String, String>,
    pub pools: Vec<PoolDef>,
    pub plugins: Option<String>,
    /// "trust" | "md5": how the mock servers authenticate PgCat
    pub server_auth: String,
}

impl Default for Cfg {
    fn default() -> Self {
        Self::new()
    }
}

impl Cfg {
    pub fn new() -> Cfg {
        let mut g = BTreeMap::new();
        for (k, v) in [
            ("host", "\"0.0.0.0\""),
            ("port", "6432"),
            ("admin_username", "\"admin\""),
            ("admin_password", "\"adminpw\""),
            ("worker_threads", "1"),
            ("connect_timeout", "5000"),
            ("healthcheck_timeout", "1000"),
            ("healthcheck_delay", "30000"),
            ("shutdown_timeout", "60000"),
            ("ban_time", "60"),
            ("idle_client_in_transaction_timeout", "0"),
            ("server_round_robin", "true"),
            ("validate_config", "true"),
            ("log_client_connections", "false"),
        ] {
            g.insert(k.to_string(), v.to_string());
        }
        Cfg { general: g, pools: Vec::new(), plugins: None, server_auth: "md5".into() }
    }

    pub fn set(&mut self, k: &str, v: impl ToString) {
        self.general.insert(k.to_string(), v.to_string());
    }

    pub fn render(&self) -> String {
        let mut s = String::new();
        s.push_str("[general]\n");
        for (k, v) in &self.general {
            s.push_str(&format!("{} = {}\n", k, v));
        }
        if let Some(p) = &self.plugins {
            s.push_str(p);
            s.push('\n');
        }
        for p in &self.pools {
            s.push_str(&format!("\n[pools.{}]\n", p.name));
            s.push_str(&format!("pool_mode = \"{}\"\n", p.mode));
            s.push_str(&format!("load_balancing_mode = \"{}\"\n", p.lb));
            s.push_str(&format!("default_role = \"{}\"\n", p.default_role));
            s.push_str(&format!("query_parser_enabled = {}\n", p.query_parser_enabled));
            s.push_str(&format!("query_parser_read_write_splitting = {}\n", p.rw_split));
            s.push_str(&format!("primary_reads_enabled = {}\n", p.primary_reads_enabled));
            s.push_str(&format!("sharding_function = \"{}\"\n", p.sharding_function));
            s.push_str(&format!("prepared_statements_cache_size = {}\n", p.cache_size));
            for e in &p.extra {
                s.push_str(e);
                s.push('\n');
            }
            if let Some(pl) = &p.plugins {
                s.push_str(pl);
                s.push('\n');
            }
            for u in &p.users {
                s.push_str(&format!("\n[pools.{}.users.{}]\n", p.name, u.key));
                s.push_str(&format!("username = {}\n", toml_str(&u.name)));
                if let Some(pw) = &u.password {
                    s.push_str(&format!("password = {}\n", toml_str(pw)));
                }
                s.push_str(&format!("pool_size = {}\n", u.pool_size));
                if let Some(m) = u.min_pool_size {
                    s.push_str(&format!("min_pool_size = {}\n", m));
                }
                s.push_str(&format!("statement_timeout = {}\n", u.statement_timeout));
                if let Some(m) = &u.pool_mode {
                    s.push_str(&format!("pool_mode = \"{}\"\n", m));
                }
                if let Some(x) = &u.server_username {
                    s.push_str(&format!("server_username = {}\n", toml_str(x)));
                }
                if let Some(x) = &u.server_password {
                    s.push_str(&format!("server_password = {}\n", toml_str(x)));
                }
                for e in &u.extra {
                    s.push_str(e);
                    s.push('\n');
                }
            }
            for sh in &p.shards {
                s.push_str(&format!("\n[pools.{}.shards.{}]\n", p.name, sh.id));
                s.push_str(&format!("database = {}\n", toml_str(&sh.database)));
                let servers: Vec<String> = sh.servers.iter().map(|(h, port, r)| format!("[{}, {}, \"{}\"]", toml_str(h), port, r)).collect();
                s.push_str(&format!("servers = [{}]\n", servers.join(", ")));
                if !sh.mirrors.is_empty() {
                    let ms: Vec<String> = sh.mirrors.iter().map(|(h, port, t)| format!("[{}, {}, {}]", toml_str(h), port, t)).collect();
                    s.push_str(&format!("mirrors = [{}]\n", ms.join(", ")));
                }
            }
        }
        s
    }

    /// One mock host per distinct server/mirror address.
    pub fn hosts(&self) -> Vec<HostSpec> {
        let mut out: Vec<HostSpec> = Vec::new();
        for p in &self.pools {
            let mut users = BTreeMap::new();
            for u in &p.users {
                let su = u.server_username.clone().unwrap_or_else(|| u.name.clone());
                let sp = u.server_password.clone().or_else(|| u.password.clone()).unwrap_or_default();
                users.insert(su, sp);
            }
            for sh in &p.shards {
                let shard_no: i32 = sh.id.parse().unwrap_or(-1);
                for (h, port, role) in &sh.servers {
                    let addr = format!("{}:{}", h, port);
                    if let Some(e) = out.iter_mut().find(|x| x.addr == addr) {
                        e.users.extend(users.clone());
                        continue;
                    }
                    out.push(HostSpec { addr, shard: shard_no, role: role.clone(), pool: p.name.clone(), auth: self.server_auth.clone(), users: users.clone(), shadow: BTreeMap::new(), mirror_of: None });
                }
                for (h, port, t) in &sh.mirrors {
                    let addr = format!("{}:{}", h, port);
                    if out.iter().any(|x| x.addr == addr) {
                        continue;
                    }
                    let target = sh.servers.get(*t).map(|(h, p, _)| format!("{}:{}", h, p));
                    out.push(HostSpec { addr, shard: shard_no, role: "mirror".into(), pool: p.name.clone(), auth: self.server_auth.clone(), users: users.clone(), shadow: BTreeMap::new(), mirror_of: target });
                }
            }
        }
        out
    }

    pub fn pool_params(&self) -> serde_json::Value {
        let mut m = serde_json::Map::new();
        for p in &self.pools {
            for u in &p.users {
                let mode = u.pool_mode.clone().unwrap_or_else(|| p.mode.clone());
                m.insert(
                    format!("{}/{}", p.name, u.name),
                    serde_json::json!({"mode": mode, "size": u.pool_size, "cache": p.cache_size, "shards": p.shards.len(), "statement_timeout": u.statement_timeout}),
                );
            }
        }
        serde_json::Value::Object(m)
    }
}

pub fn toml_str(s: &str) -> String {
    let mut out = String::from("\"");
    for ch in s.chars() {
        match ch {
            '"' => out.push_str("\\\""),
            '\\' => out.push_str("\\\\"),
            '\n' => out.push_str("\\n"),
            c if (c as u32) < 0x20 => out.push_str(&format!("\\u{:04x}", c as u32)),
            c => out.push(c),
        }
    }
    out.push('"');
    out
}

/// One unsharded pool "db" with one user "app" over `n_servers` servers (first one primary).
pub fn single_pool(mode: &str, pool_size: u32, replicas: usize) -> Cfg {
    let mut servers = vec![("pg-s0-p".to_string(), 5432u16, "primary".to_string())];
    for i in 0..replicas {
        servers.push((format!("pg-s0-r{}", i), 5432, "replica".to_string()));
    }
    let mut cfg = Cfg::new();
    cfg.pools.push(PoolDef::simple("db", mode, vec![UserDef::new("app", "apppw", pool_size)], vec![ShardDef { id: "0".into(), database: "db".into(), servers, mirrors: vec![] }]));
    cfg
}

/// One pool "db" with one user "app" over `nshards` shards, each with a primary and `replicas` replicas.
pub fn sharded_pool(mode: &str, pool_size: u32, nshards: usize, replicas: usize) -> Cfg {
    let mut shards = Vec::new();
    for s in 0..nshards {
        let mut servers = vec![(format!("pg-s{}-p", s), 5432u16, "primary".to_string())];
        for i in 0..replicas {
            servers.push((format!("pg-s{}-r{}", s, i), 5432, "replica".to_string()));
        }
        shards.push(ShardDef { id: s.to_string(), database: format!("db_s{}", s), servers, mirrors: vec![] });
    }
    let mut cfg = Cfg::new();
    cfg.pools.push(PoolDef::simple("db", mode, vec![UserDef::new("app", "apppw", pool_size)], shards));
    cfg
}
