//! C15: an accepted configuration is a servable configuration.

use super::*;
use std::collections::BTreeSet;

/// A base configuration (1-3 shards with primary and optional replica, 1-2 users) with at most
/// one deviation from a bounded grammar: shard numbering, primaries per shard, duplicate
/// servers, default_shard / default_role values, credentials, pool sizes, regexes, plugin
/// sections, mirrors, sharding function, pool mode. One probe client per (user, shard id written
/// in the file, role), one for the default shard, one admin.
pub fn c15(rng: &mut Rng, _thorough: bool, idx: u64) -> Spec {
    // every 47th run: a valid file with more than ten shards ("10" sorts before "2" as text)
    let many = idx % 47 == 46;
    let nshards = if many { rng.range(11, 13) as usize } else { rng.range(1, 3) as usize };
    let replicas = if many { 0 } else { rng.range(0, 1) as usize };
    let mut cfg = sharded_pool("transaction", 2, nshards, replicas);
    cfg.set("connect_timeout", 1500);
    cfg.set("ban_time", 1);
    if rng.chance(0.4) {
        cfg.pools[0].users.push(UserDef { key: "1".into(), ..UserDef::new("other", "otherpw", 2) });
    }
    cfg.pools[0].lb = rng.pick(&["random", "loc"]).to_string();
    let kinds = [
        "valid", "valid", "valid", "shard_ids_start_at_1", "shard_ids_with_gap", "shard_id_not_numeric", "shard_id_huge", "shard_id_negative", "shard_id_leading_zero", "two_primaries", "no_primary", "duplicate_server",
        "default_shard_beyond_range", "default_shard_last", "default_shard_random", "default_shard_random_healthy", "default_shard_bogus", "default_role_bogus", "default_role_capitalised", "default_role_replica_without_replicas",
        "user_without_password", "auth_query_incomplete", "min_pool_size_above_pool_size", "pool_size_zero", "idle_timeout_zero", "server_lifetime_zero", "connect_timeout_zero", "autoreload_zero", "healthcheck_timeout_zero", "ban_time_zero", "shutdown_timeout_zero", "invalid_sharding_key_regex", "invalid_shard_id_regex", "plugins_without_parser",
        "rw_split_without_parser", "mirror_of_absent_server", "sharding_function_bogus", "pool_mode_bogus", "automatic_sharding_key_unqualified", "no_servers_in_shard", "same_server_in_two_shards", "duplicate_user_names",
    ];
    let kind = if many { "valid_many_shards" } else { kinds[(idx % kinds.len() as u64) as usize] };
    // what the property says about this kind: "accept" (servable: must not be refused... not judged),
    // "reject" (listed as not servable), "either" (judged only by servability when accepted)
    let mut expect = "either";
    let mut default_shard: String = "shard_0".into();
    let ids = |cfg: &mut Cfg, ids: &[&str]| {
        for (i, id) in ids.iter().enumerate() {
            if let Some(s) = cfg.pools[0].shards.get_mut(i) {
                s.id = id.to_string();
            }
        }
    };
    match kind {
        "valid" | "valid_many_shards" => expect = "accept",
        "shard_ids_start_at_1" => {
            let v: Vec<String> = (1..=nshards).map(|x| x.to_string()).collect();
            let r: Vec<&str> = v.iter().map(|s| s.as_str()).collect();
            ids(&mut cfg, &r);
            expect = "reject";
        }
        "shard_ids_with_gap" => {
            let v: Vec<String> = (0..nshards).map(|x| (x * 2).to_string()).collect();
            let r: Vec<&str> = v.iter().map(|s| s.as_str()).collect();
            ids(&mut cfg, &r);
            if nshards > 1 {
                expect = "reject";
            } else {
                expect = "accept";
            }
        }
        "shard_id_not_numeric" => {
            ids(&mut cfg, &["a"]);
            expect = "reject";
        }
        "shard_id_huge" => {
            let last = nshards - 1;
            cfg.pools[0].shards[last].id = "4294967296".into();
            expect = "reject";
        }
        "shard_id_negative" => {
            cfg.pools[0].shards[0].id = "-1".into();
            expect = "reject";
        }
        "shard_id_leading_zero" => {
            cfg.pools[0].shards[0].id = "00".into();
        }
        "two_primaries" => {
            cfg.pools[0].shards[0].servers.push(("pg-s0-p2".into(), 5432, "primary".into()));
            expect = "reject";
        }
        "no_primary" => {
            for s in cfg.pools[0].shards[0].servers.iter_mut() {
                s.2 = "replica".into();
            }
        }
        "duplicate_server" => {
            let first = cfg.pools[0].shards[0].servers[0].clone();
            cfg.pools[0].shards[0].servers.push(first);
            expect = "reject";
        }
        "default_shard_beyond_range" => {
            default_shard = format!("shard_{}", nshards + rng.below(3) as usize);
            expect = "reject";
        }
        "default_shard_last" => default_shard = format!("shard_{}", nshards - 1),
        "default_shard_random" => default_shard = "random".into(),
        "default_shard_random_healthy" => default_shard = "random_healthy".into(),
        "default_shard_bogus" => {
            default_shard = "first".into();
            expect = "reject";
        }
        "default_role_bogus" => {
            cfg.pools[0].default_role = "leader".into();
            expect = "reject";
        }
        "default_role_capitalised" => {
            // refused or served, as the pooler pleases; but never accepted and then not servable
            cfg.pools[0].default_role = rng.pick(&["Primary", "REPLICA", "Any", "PRIMARY", "Replica"]).to_string();
        }
        "default_role_replica_without_replicas" => {
            cfg.pools[0].default_role = "replica".into();
        }
        "user_without_password" => {
            cfg.pools[0].users[0].password = None;
            expect = "reject";
        }
        "auth_query_incomplete" => {
            cfg.pools[0].users[0].password = None;
            cfg.pools[0].extra.push("auth_query = \"SELECT * FROM public.user_lookup('$1')\"".into());
            expect = "reject";
        }
        "min_pool_size_above_pool_size" => {
            cfg.pools[0].users[0].min_pool_size = Some(cfg.pools[0].users[0].pool_size + 3);
        }
        "pool_size_zero" => {
            cfg.pools[0].users[0].pool_size = 0;
        }
        // a timeout of zero, in the general section or for one pool: refused, or served
        "idle_timeout_zero" => {
            if rng.chance(0.5) { cfg.set("idle_timeout", 0); } else { cfg.pools[0].extra.push("idle_timeout = 0".into()); }
        }
        "server_lifetime_zero" => {
            if rng.chance(0.5) { cfg.set("server_lifetime", 0); } else { cfg.pools[0].extra.push("server_lifetime = 0".into()); }
        }
        "autoreload_zero" => cfg.set("autoreload", 0),
        "healthcheck_timeout_zero" => {
            cfg.set("healthcheck_timeout", 0);
            cfg.set("healthcheck_delay", 0);
        }
        "ban_time_zero" => cfg.set("ban_time", 0),
        "shutdown_timeout_zero" => cfg.set("shutdown_timeout", 0),
        "connect_timeout_zero" => {
            if rng.chance(0.5) { cfg.set("connect_timeout", 0); } else { cfg.pools[0].extra.push("connect_timeout = 0".into()); }
        }
        "invalid_sharding_key_regex" => cfg.pools[0].extra.push("sharding_key_regex = '(unclosed'".into()),
        "invalid_shard_id_regex" => cfg.pools[0].extra.push("shard_id_regex = '[z-a]'".into()),
        "plugins_without_parser" => {
            cfg.pools[0].query_parser_enabled = false;
            cfg.pools[0].plugins = Some("\n[pools.db.plugins]\n\n[pools.db.plugins.table_access]\nenabled = true\ntables = [\"secret\"]\n".into());
        }
        "rw_split_without_parser" => {
            cfg.pools[0].query_parser_enabled = false;
            cfg.pools[0].rw_split = true;
        }
        "mirror_of_absent_server" => {
            cfg.pools[0].shards[0].mirrors.push(("pg-mx".into(), 5432, 7));
        }
        "sharding_function_bogus" => cfg.pools[0].sharding_function = "crc32".into(),
        "pool_mode_bogus" => cfg.pools[0].mode = "statement".into(),
        "automatic_sharding_key_unqualified" => {
            cfg.pools[0].query_parser_enabled = true;
            cfg.pools[0].extra.push("automatic_sharding_key = \"id\"".into());
        }
        "no_servers_in_shard" => {
            cfg.pools[0].shards[0].servers.clear();
            expect = "reject";
        }
        "same_server_in_two_shards" => {
            if nshards > 1 {
                let s = cfg.pools[0].shards[0].servers[0].clone();
                cfg.pools[0].shards[1].servers = vec![s];
            }
        }
        _ => {
            // duplicate_user_names
            let u = cfg.pools[0].users[0].clone();
            cfg.pools[0].users.push(UserDef { key: "7".into(), ..u });
        }
    }
    cfg.pools[0].extra.push(format!("default_shard = \"{}\"", default_shard));
    // probes
    let mut clients = Vec::new();
    let mut plan = serde_json::Map::new();
    let mut id = 0u32;
    let users: Vec<(String, Option<String>)> = {
        let mut seen = Vec::new();
        for u in &cfg.pools[0].users {
            if !seen.iter().any(|(n, _): &(String, Option<String>)| n == &u.name) {
                seen.push((u.name.clone(), u.password.clone()));
            }
        }
        seen
    };
    for (user, pw) in &users {
        for sh in &cfg.pools[0].shards {
            let numeric: Option<u64> = sh.id.parse::<u64>().ok();
            let roles: BTreeSet<String> = sh.servers.iter().map(|s| s.2.clone()).collect();
            for role in roles {
                id += 1;
                let mut p = Prog::new(id);
                if let Some(n) = numeric {
                    p.simple(format!("SET SHARD TO '{}'", n));
                } else {
                    continue;
                }
                p.simple(format!("SET SERVER ROLE TO '{}'", role));
                p.new_txn();
                let s = p.select(1, 0, "");
                let tag = format!("c{}.t{}.s{}", id, p.t, p.s);
                plan.insert(tag, serde_json::json!({"shard_id": sh.id, "shard_no": numeric, "role": role, "user": user, "hosts": sh.servers.iter().filter(|s| s.2 == role).map(|s| format!("{}:{}", s.0, s.1)).collect::<Vec<String>>()}));
                p.simple(s);
                p.steps.push(Step::Terminate);
                let mut c = client(id, user, "db", pw.as_deref().unwrap_or("nopw"), rng.range(0, 40), p.steps);
                c.role = "probe".into();
                c.patience_ms = 20_000;
                clients.push(c);
            }
        }
        // the default shard
        id += 1;
        let mut p = Prog::new(id);
        p.simple("SET SERVER ROLE TO 'any'".into());
        p.new_txn();
        let s = p.select(1, 0, "");
        let tag = format!("c{}.t{}.s{}", id, p.t, p.s);
        plan.insert(tag, serde_json::json!({"default_shard": default_shard, "user": user}));
        p.simple(s);
        p.steps.push(Step::Terminate);
        let mut c = client(id, user, "db", pw.as_deref().unwrap_or("nopw"), rng.range(0, 40), p.steps);
        c.role = "probe".into();
        c.patience_ms = 20_000;
        clients.push(c);
    }
    let mut a = admin_client(500, "main", When::AtMs { ms: rng.range(0, 60) }, &["SHOW POOLS", "SHOW DATABASES", "SHOW SERVERS", "SHOW CONFIG", "SHOW LISTS", "SHOW STATS"]);
    a.patience_ms = 20_000;
    clients.push(a);
    let net = if rng.chance(0.7) { net_calm() } else { net_swarm(rng) };
    let mut spec = Spec { config_toml: cfg.render(), hosts: cfg.hosts(), net, clients, end: EndSpec { deadline_ms: 900_000, calm_ms: 20 }, ..Default::default() };
    spec.params = params_from(&cfg);
    spec.params.insert("c15_kind".into(), serde_json::json!(kind));
    spec.params.insert("c15_expect".into(), serde_json::json!(expect));
    spec.params.insert("c15_plan".into(), serde_json::Value::Object(plan));
    spec.params.insert("nshards".into(), serde_json::json!(nshards));
    spec.family = format!("config/{}", kind);
    spec.oracles = vec!["c15_config".into(), "liveness".into()];
    spec
}
