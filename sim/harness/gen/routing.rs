//! Routing families: C07 (bans and failover), C05 (roles), C06 (shards).

use super::*;

fn q(sql: String, txn: u32) -> Step {
    Step::Send { msgs: vec![FrontMsg::Q { sql }], rfq: None, cut: None, abort: false, txn }
}

#[derive(Clone, Debug)]
pub struct FaultWin {
    pub host: String,
    pub kind: String,
    pub from_ms: u64,
    pub to_ms: u64,
}

/// C07: one shard with 0..3 replicas, with or without a primary; fault scripts per server;
/// admin BAN/UNBAN; ban_time small enough to expire inside a run; clients requesting
/// primary/replica/any.
pub fn c07(rng: &mut Rng, thorough: bool, idx: u64) -> Spec {
    if idx % 4 == 3 {
        return c07_expiry(rng, thorough);
    }
    let has_primary = rng.chance(0.7);
    let nrep = if has_primary { rng.range(0, 3) } else { rng.range(1, 3) } as usize;
    let mut servers: Vec<(String, u16, String)> = Vec::new();
    if has_primary {
        servers.push(("pg-s0-p".into(), 5432, "primary".into()));
    }
    for i in 0..nrep {
        servers.push((format!("pg-s0-r{}", i), 5432, "replica".into()));
    }
    let nclients = rng.range(2, if thorough { 6 } else { 4 }) as u32;
    // ample capacity: waiting for a free connection must not be confused with waiting on a dead server
    let pool_size = nclients + 2;
    let mut cfg = Cfg::new();
    let mut pool = PoolDef::simple("db", "transaction", vec![UserDef::new("app", "apppw", pool_size)], vec![ShardDef { id: "0".into(), database: "db".into(), servers: servers.clone(), mirrors: vec![] }]);
    pool.lb = rng.pick(&["random", "loc"]).to_string();
    pool.default_role = rng.pick(&["any", "any", "replica", "primary"]).to_string();
    if pool.default_role == "primary" && !has_primary {
        pool.default_role = "replica".into();
    }
    if pool.default_role == "replica" && nrep == 0 {
        pool.default_role = "any".into();
    }
    let stmt_timeout = rng.range(300, 800);
    pool.users[0].statement_timeout = stmt_timeout;
    cfg.pools.push(pool);
    let connect_timeout = rng.range(300, 800);
    let hc_timeout = rng.range(100, 400);
    let hc_delay = *rng.pick(&[0u64, 0, 100, 30000]);
    let ban_time = rng.range(1, 4);
    cfg.set("connect_timeout", connect_timeout);
    cfg.set("healthcheck_timeout", hc_timeout);
    cfg.set("healthcheck_delay", hc_delay);
    cfg.set("ban_time", ban_time);
    cfg.set("idle_timeout", 3000);
    cfg.server_auth = rng.pick(&["md5", "trust"]).to_string();

    // ---- fault script ----
    let horizon = rng.range(1500, if thorough { 9000 } else { 5000 });
    let mut wins: Vec<FaultWin> = Vec::new();
    let mut actions: Vec<ActionSpec> = Vec::new();
    let faultable: Vec<String> = servers.iter().filter(|(_, _, r)| r == "replica" || rng.chance(0.25)).map(|(h, p, _)| format!("{}:{}", h, p)).collect();
    for host in &faultable {
        let mut t = rng.range(20, 600);
        let nf = rng.range(0, 2);
        for _ in 0..nf {
            if t >= horizon {
                break;
            }
            let kind = *rng.pick(&["down", "down", "silent", "reject_startup", "hang"]);
            // mostly short outages; sometimes one that outlasts every configured timeout many times over
            let dur = if rng.chance(0.25) { rng.range(8000, 20000) } else { rng.range(200, 2500) };
            let end = if kind == "hang" { 10_000_000 } else { t + dur };
            match kind {
                "down" => {
                    actions.push(ActionSpec { at: When::AtMs { ms: t }, act: Action::HostMode { host: host.clone(), mode: "refuse".into() } });
                    actions.push(ActionSpec { at: When::AtMs { ms: t }, act: Action::KillConns { host: host.clone(), how: rng.pick(&["fin", "rst"]).to_string() } });
                    actions.push(ActionSpec { at: When::AtMs { ms: end }, act: Action::HostMode { host: host.clone(), mode: "up".into() } });
                }
                "silent" => {
                    actions.push(ActionSpec { at: When::AtMs { ms: t }, act: Action::HostBehaviour { host: host.clone(), b: "silent".into() } });
                    actions.push(ActionSpec { at: When::AtMs { ms: end }, act: Action::HostBehaviour { host: host.clone(), b: "normal".into() } });
                }
                "reject_startup" => {
                    actions.push(ActionSpec { at: When::AtMs { ms: t }, act: Action::HostBehaviour { host: host.clone(), b: "reject_startup".into() } });
                    actions.push(ActionSpec { at: When::AtMs { ms: t }, act: Action::KillConns { host: host.clone(), how: "fin".into() } });
                    actions.push(ActionSpec { at: When::AtMs { ms: end }, act: Action::HostBehaviour { host: host.clone(), b: "normal".into() } });
                }
                _ => {
                    // black hole: connects never complete; never recovers inside the run
                    actions.push(ActionSpec { at: When::AtMs { ms: t }, act: Action::HostMode { host: host.clone(), mode: "hang".into() } });
                    actions.push(ActionSpec { at: When::AtMs { ms: t }, act: Action::KillConns { host: host.clone(), how: "rst".into() } });
                }
            }
            wins.push(FaultWin { host: host.clone(), kind: kind.to_string(), from_ms: t, to_ms: end });
            if kind == "hang" {
                break;
            }
            t = end + rng.range(300, 1500);
        }
    }
    // ---- admin BAN / UNBAN ----
    let mut admin_steps: Vec<Step> = Vec::new();
    let replicas: Vec<String> = servers.iter().filter(|(_, _, r)| r == "replica").map(|(h, _, _)| h.clone()).collect();
    if rng.chance(0.5) {
        let mut t_prev = 0;
        for _ in 0..rng.range(1, 3) {
            let t = rng.range(10, horizon);
            admin_steps.push(Step::Think { ms: t.saturating_sub(t_prev).max(1) });
            t_prev = t;
            let target = if has_primary && rng.chance(0.2) { "pg-s0-p".to_string() } else if !replicas.is_empty() { rng.pick(&replicas).clone() } else { "pg-s0-p".to_string() };
            if rng.chance(0.7) {
                admin_steps.push(q(format!("BAN {} {}", target, rng.range(1, 5)), 0));
            } else {
                admin_steps.push(q(format!("UNBAN {}", target), 0));
            }
            if rng.chance(0.5) {
                admin_steps.push(q("SHOW BANS".into(), 0));
            }
        }
    }
    admin_steps.push(Step::Terminate);
    let mut clients = Vec::new();
    let mut admin = admin_client(500, "main", When::AtMs { ms: 0 }, &[]);
    admin.steps = admin_steps;
    clients.push(admin);

    // ---- workers ----
    let mut client_roles = serde_json::Map::new();
    let mut next_id = 1u32;
    for _ in 0..nclients {
        // a worker is a sequence of short-lived sessions (PgCat drops the client when its server breaks)
        let role = *rng.pick(&["default", "default", "replica", "primary", "any"]);
        let role = match role {
            "replica" if nrep == 0 => "default",
            "primary" if !has_primary => "default",
            r => r,
        };
        let mut t0 = rng.range(0, 100);
        let sessions = rng.range(2, if thorough { 8 } else { 5 });
        let mut prev: Option<u32> = None;
        for _ in 0..sessions {
            let id = next_id;
            next_id += 1;
            let mut p = Prog::new(id);
            if role != "default" {
                p.steps.push(q(format!("SET SERVER ROLE TO '{}'", role), 0));
            }
            let n = rng.range(2, 8);
            for _ in 0..n {
                p.new_txn();
                match rng.below(10) {
                    0 => {
                        // the server breaks while executing this statement
                        let t = p.tag();
                        if rng.chance(0.4) {
                            // ... in the middle of a reply that PgCat relays in several pieces: after
                            // the first piece(s) the server closes, or goes quiet for good
                            let at = rng.range(8300, 30000);
                            if rng.chance(0.5) {
                                p.simple(format!("SELECT '{}', sim_rows(4), sim_pad(8000), sim_close({}){}", t, at, if rng.chance(0.5) { ", sim_rst()" } else { "" }));
                            } else {
                                p.simple(format!("SELECT '{}', sim_rows(4), sim_pad(8000), sim_stall({})", t, at));
                            }
                        } else {
                            p.simple(format!("SELECT '{}', sim_rows(3), sim_close({}){}", t, rng.range(0, 60), if rng.chance(0.5) { ", sim_rst()" } else { "" }));
                        }
                    }
                    1 => {
                        let t = p.tag();
                        p.simple(format!("BEGIN /* {} */", t));
                        let s = p.select(1, 0, "");
                        p.simple(s);
                        p.think(rng.range(1, 50));
                        let t = p.tag();
                        p.simple(format!("COMMIT /* {} */", t));
                    }
                    _ => {
                        let s = p.select(1, 0, "");
                        p.simple(s);
                    }
                }
                p.think(rng.range(5, 150));
            }
            p.steps.push(Step::Terminate);
            let mut c = client(id, "app", "db", "apppw", t0, p.steps);
            if let Some(pid) = prev {
                c.start = When::After { ev: format!("c{}.done", pid), delay_ms: rng.range(1, 200) };
            }
            c.patience_ms = 120_000;
            client_roles.insert(id.to_string(), serde_json::json!(role));
            clients.push(c);
            prev = Some(id);
            t0 = 0;
        }
    }
    // ---- final phase: everything healed (except black holes), bb8's reaper flushed stale connections ----
    let mut fid = 900;
    for role in ["any", "replica", "primary"] {
        if (role == "replica" && nrep == 0) || (role == "primary" && !has_primary) {
            continue;
        }
        fid += 1;
        let mut p = Prog::new(fid);
        p.steps.push(q(format!("SET SERVER ROLE TO '{}'", role), 0));
        for _ in 0..3 {
            p.new_txn();
            let s = p.select(1, 0, "");
            p.simple(s);
        }
        p.steps.push(Step::Terminate);
        let mut c = client(fid, "app", "db", "apppw", 0, p.steps);
        c.phase = "final".into();
        c.role = "probe".into();
        c.patience_ms = 120_000;
        client_roles.insert(fid.to_string(), serde_json::json!(role));
        clients.push(c);
    }
    let net = if rng.chance(0.5) { net_calm() } else { NetSpec { chaos: *rng.pick(&[0.0, 0.05, 0.15]), latency_ms: (0, *rng.pick(&[0u64, 1, 3])), ..net_swarm(rng) } };
    let mut spec = Spec { config_toml: cfg.render(), hosts: cfg.hosts(), net, clients, actions, end: EndSpec { deadline_ms: 3_000_000, calm_ms: 12_000 }, ..Default::default() };
    spec.params = params_from(&cfg);
    spec.params.insert("client_roles".into(), serde_json::Value::Object(client_roles));
    spec.params.insert("default_role".into(), serde_json::json!(cfg.pools[0].default_role));
    spec.params.insert("fault_windows".into(), serde_json::json!(wins.iter().map(|w| serde_json::json!({"host": w.host, "kind": w.kind, "from_ms": w.from_ms, "to_ms": w.to_ms})).collect::<Vec<_>>()));
    spec.params.insert("connect_timeout".into(), serde_json::json!(connect_timeout));
    spec.params.insert("healthcheck_timeout".into(), serde_json::json!(hc_timeout));
    spec.params.insert("healthcheck_delay".into(), serde_json::json!(hc_delay));
    spec.params.insert("statement_timeout".into(), serde_json::json!(stmt_timeout));
    spec.params.insert("ban_time".into(), serde_json::json!(ban_time));
    spec.params.insert("server_faults".into(), serde_json::json!(true));
    spec.family = format!("bans/{}replicas{}", nrep, if has_primary { "+primary" } else { "" });
    spec.oracles = vec!["c07_bans".into(), "liveness".into()];
    spec
}

/// C07 sub-family: a ban must end. Two healthy replicas, clients asking for role replica with
/// random load balancing; R0 is banned by the admin for a short duration (or banned by a fault
/// with a short ban_time, or unbanned by UNBAN). Before the end of the ban R0 receives nothing;
/// afterwards, over >= 60 further checkouts, it must be chosen at least once (p = 2^-60 otherwise).
pub fn c07_expiry(rng: &mut Rng, _thorough: bool) -> Spec {
    let has_primary = rng.chance(0.5);
    let mut servers: Vec<(String, u16, String)> = Vec::new();
    if has_primary {
        servers.push(("pg-s0-p".into(), 5432, "primary".into()));
    }
    servers.push(("pg-s0-r0".into(), 5432, "replica".into()));
    servers.push(("pg-s0-r1".into(), 5432, "replica".into()));
    let mut cfg = Cfg::new();
    let mut pool = PoolDef::simple("db", "transaction", vec![UserDef::new("app", "apppw", 4)], vec![ShardDef { id: "0".into(), database: "db".into(), servers, mirrors: vec![] }]);
    pool.lb = "random".into();
    pool.default_role = "replica".into();
    cfg.pools.push(pool);
    let ban_time = rng.range(1, 3);
    cfg.set("ban_time", ban_time);
    cfg.set("connect_timeout", 500);
    cfg.set("healthcheck_delay", *rng.pick(&[0u64, 30000]));
    let mode = *rng.pick(&["admin_ban", "fault_ban", "admin_unban"]);
    let mut actions = Vec::new();
    let mut admin_steps = vec![Step::Think { ms: 50 }];
    let ban_secs;
    match mode {
        "admin_ban" => {
            ban_secs = rng.range(1, 3);
            admin_steps.push(q(format!("BAN pg-s0-r0 {}", ban_secs), 0));
            admin_steps.push(Step::Emit { ev: "banned".into() });
        }
        "admin_unban" => {
            ban_secs = 1;
            admin_steps.push(q("BAN pg-s0-r0 3600".into(), 0));
            admin_steps.push(Step::Emit { ev: "banned".into() });
            admin_steps.push(Step::Think { ms: 1000 });
            admin_steps.push(q("UNBAN pg-s0-r0".into(), 0));
        }
        _ => {
            ban_secs = ban_time;
            // R0 refuses connections for a moment: the next checkout bans it for ban_time
            actions.push(ActionSpec { at: When::AtMs { ms: 50 }, act: Action::HostMode { host: "pg-s0-r0:5432".into(), mode: "refuse".into() } });
            actions.push(ActionSpec { at: When::AtMs { ms: 50 }, act: Action::KillConns { host: "pg-s0-r0:5432".into(), how: "fin".into() } });
            actions.push(ActionSpec { at: When::AtMs { ms: 400 }, act: Action::HostMode { host: "pg-s0-r0:5432".into(), mode: "up".into() } });
            actions.push(ActionSpec { at: When::AtMs { ms: 400 }, act: Action::Emit { ev: "banned".into() } });
        }
    }
    admin_steps.push(Step::Emit { ev: "admin_done".into() });
    admin_steps.push(Step::Terminate);
    let mut clients = Vec::new();
    let mut admin = admin_client(500, "main", When::AtMs { ms: 0 }, &[]);
    admin.steps = admin_steps;
    clients.push(admin);
    // one steady client: a transaction every 20..40 ms for ban duration + 5 s
    let mut p = Prog::new(1);
    let total_ms = (ban_secs + 2) * 1000 + 4000;
    let mut t = 0;
    while t < total_ms {
        p.new_txn();
        let s = p.select(1, 0, "");
        p.simple(s);
        let d = rng.range(20, 40);
        p.think(d);
        t += d;
    }
    p.steps.push(Step::Terminate);
    let mut c = client(1, "app", "db", "apppw", 0, p.steps);
    c.patience_ms = 120_000;
    clients.push(c);
    let mut spec = Spec { config_toml: cfg.render(), hosts: cfg.hosts(), net: net_calm(), clients, actions, end: EndSpec { deadline_ms: 3_000_000, calm_ms: 100 }, ..Default::default() };
    spec.params = params_from(&cfg);
    spec.params.insert("expiry_mode".into(), serde_json::json!(mode));
    spec.params.insert("ban_secs".into(), serde_json::json!(ban_secs));
    spec.params.insert("ban_time".into(), serde_json::json!(ban_time));
    spec.params.insert("server_faults".into(), serde_json::json!(true));
    spec.family = format!("bans/expiry/{}", mode);
    spec.oracles = vec!["c07_expiry".into(), "liveness".into()];
    spec
}
