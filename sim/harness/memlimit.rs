//! Allocation seam: the process-wide allocator counts live heap bytes and enforces the memory
//! limit of the simulated deployment (spec.params.mem_limit_mb; off when absent). A request
//! that would push the live total over the limit is the simulated out-of-memory kill: the child
//! reports it on stdout ("OOM <request> <live>") and exits with code 86, which the parent turns
//! into a "pooler terminated" verdict. Nothing here allocates, draws from a PRNG or reads a clock.

use std::alloc::{GlobalAlloc, Layout};
use std::sync::atomic::{AtomicUsize, Ordering};

pub struct Budgeted;

static LIVE: AtomicUsize = AtomicUsize::new(0);
static PEAK_REQ: AtomicUsize = AtomicUsize::new(0);
static LIMIT: AtomicUsize = AtomicUsize::new(0);

pub fn set_limit(bytes: usize) {
    LIMIT.store(bytes, Ordering::SeqCst);
}

/// Largest single allocation request seen so far.
pub fn peak_request() -> usize {
    PEAK_REQ.load(Ordering::Relaxed)
}

pub const OOM_EXIT: i32 = 86;

#[cold]
fn out_of_memory(req: usize, live: usize) -> ! {
    // The process is about to end: lift the limit so that naming the call site may allocate.
    LIMIT.store(0, Ordering::SeqCst);
    let bt = std::backtrace::Backtrace::force_capture().to_string();
    let mut site = String::from("unknown");
    for l in bt.lines() {
        let l = l.trim();
        // "12: pgcat::messages::read_message::{{closure}}"
        if let Some(pos) = l.find("pgcat::") {
            if l.contains("memlimit") || l.contains("simharness::runner") {
                continue;
            }
            let f = &l[pos..];
            let f = f.split("::{{closure}}").next().unwrap_or(f);
            let f = f.split("::h").next().unwrap_or(f);
            site = f.replace("simharness::pgcat_main", "pgcat::main").replace(|c: char| !(c.is_alphanumeric() || c == ':' || c == '_'), "_");
            break;
        }
    }
    let line = format!("\nOOM {} {} {}\n", req, live, site);
    unsafe {
        libc::write(1, line.as_ptr() as *const libc::c_void, line.len());
        libc::_exit(OOM_EXIT);
    }
}

#[inline]
fn charge(size: usize) {
    let live = LIVE.fetch_add(size, Ordering::Relaxed) + size;
    if size > PEAK_REQ.load(Ordering::Relaxed) {
        PEAK_REQ.store(size, Ordering::Relaxed);
    }
    let limit = LIMIT.load(Ordering::Relaxed);
    if limit != 0 && live > limit {
        out_of_memory(size, live - size);
    }
}

unsafe impl GlobalAlloc for Budgeted {
    unsafe fn alloc(&self, layout: Layout) -> *mut u8 {
        charge(layout.size());
        jemallocator::Jemalloc.alloc(layout)
    }
    unsafe fn alloc_zeroed(&self, layout: Layout) -> *mut u8 {
        charge(layout.size());
        jemallocator::Jemalloc.alloc_zeroed(layout)
    }
    unsafe fn dealloc(&self, ptr: *mut u8, layout: Layout) {
        LIVE.fetch_sub(layout.size(), Ordering::Relaxed);
        jemallocator::Jemalloc.dealloc(ptr, layout)
    }
    unsafe fn realloc(&self, ptr: *mut u8, layout: Layout, new_size: usize) -> *mut u8 {
        if new_size > layout.size() {
            charge(new_size - layout.size());
        } else {
            LIVE.fetch_sub(layout.size() - new_size, Ordering::Relaxed);
        }
        jemallocator::Jemalloc.realloc(ptr, layout, new_size)
    }
}
