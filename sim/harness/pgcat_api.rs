//! Read-only observations through PgCat's public library API (no hooks needed): the ban list
//! and pool state. Reading takes parking_lot read locks only and draws no random numbers.

/// "host:port|role|pool|user|reason" for every address currently in a ban list.
pub fn banned_hosts() -> Vec<String> {
    let mut out = Vec::new();
    let pools = pgcat::pool::get_all_pools();
    let mut keys: Vec<_> = pools.keys().cloned().collect();
    keys.sort_by(|a, b| (a.db.clone(), a.user.clone()).cmp(&(b.db.clone(), b.user.clone())));
    for k in keys {
        let p = &pools[&k];
        for (addr, (reason, _)) in p.get_bans() {
            out.push(format!("{}:{}|{}|{}|{}|{:?}", addr.host, addr.port, addr.role, k.db, k.user, reason));
        }
    }
    out.sort();
    out
}

/// (pool, user, host:port, connections, idle_connections) per server pool.
pub fn pool_states() -> Vec<(String, String, String, u32, u32)> {
    let mut out = Vec::new();
    let pools = pgcat::pool::get_all_pools();
    for (k, p) in pools.iter() {
        for shard in 0..p.shards() {
            for server in 0..p.servers(shard) {
                let a = p.address(shard, server);
                let st = p.pool_state(shard, server);
                out.push((k.db.clone(), k.user.clone(), format!("{}:{}", a.host, a.port), st.connections, st.idle_connections));
            }
        }
    }
    out.sort();
    out
}
