//! Small executable reference models used by oracles: PostgreSQL's hash partitioning of a bigint
//! key (transcribed from hashfn.c / partbounds.c, validated against the PostgreSQL-generated
//! vectors in the repository's tests), the documented SHA-1 rule, and a hand-written recogniser
//! of PgCat's routing command language (no regular expressions).

// ------------------------------------------------------------------------------------------
// Hash partitioning
// ------------------------------------------------------------------------------------------

const HASH_PARTITION_SEED: u64 = 0x7A5B_2236_7996_DCFD;

#[inline]
fn rot(x: u32, k: u32) -> u32 {
    x.rotate_left(k)
}

/// hash_bytes_uint32_extended() of hashfn.c
fn hash_uint32_extended(k: u32, seed: u64) -> u64 {
    let init = 0x9e37_79b9u32.wrapping_add(4).wrapping_add(3_923_095);
    let (mut a, mut b, mut c) = (init, init, init);
    if seed != 0 {
        a = a.wrapping_add((seed >> 32) as u32);
        b = b.wrapping_add(seed as u32);
        // mix(a, b, c)
        a = a.wrapping_sub(c); a ^= rot(c, 4); c = c.wrapping_add(b);
        b = b.wrapping_sub(a); b ^= rot(a, 6); a = a.wrapping_add(c);
        c = c.wrapping_sub(b); c ^= rot(b, 8); b = b.wrapping_add(a);
        a = a.wrapping_sub(c); a ^= rot(c, 16); c = c.wrapping_add(b);
        b = b.wrapping_sub(a); b ^= rot(a, 19); a = a.wrapping_add(c);
        c = c.wrapping_sub(b); c ^= rot(b, 4); b = b.wrapping_add(a);
    }
    a = a.wrapping_add(k);
    // final(a, b, c)
    c ^= b; c = c.wrapping_sub(rot(b, 14));
    a ^= c; a = a.wrapping_sub(rot(c, 11));
    b ^= a; b = b.wrapping_sub(rot(a, 25));
    c ^= b; c = c.wrapping_sub(rot(b, 16));
    a ^= c; a = a.wrapping_sub(rot(c, 4));
    b ^= a; b = b.wrapping_sub(rot(a, 14));
    c ^= b; c = c.wrapping_sub(rot(b, 24));
    ((b as u64) << 32) | c as u64
}

/// hashint8extended() of hashfunc.c
fn hashint8extended(val: i64, seed: u64) -> u64 {
    let mut lohalf = val as u32;
    let hihalf = ((val as u64) >> 32) as u32;
    lohalf ^= if val >= 0 { hihalf } else { !hihalf };
    hash_uint32_extended(lohalf, seed)
}

/// hash_combine64() of hashfn.h
fn hash_combine64(mut a: u64, b: u64) -> u64 {
    a ^= b.wrapping_add(0x49a0_f4dd_15e5_a8e3).wrapping_add(a << 54).wrapping_add(a >> 7);
    a
}

/// The remainder PARTITION BY HASH (MODULUS n) assigns to a single bigint key.
pub fn pg_hash_partition(key: i64, modulus: usize) -> usize {
    let row = hash_combine64(0, hashint8extended(key, HASH_PARTITION_SEED));
    (row % modulus as u64) as usize
}

/// PgCat's documented "sha1" sharding function: SHA-1 of the decimal text of the key, the last
/// eight hex digits as an integer, modulo the shard count.
pub fn sha1_partition(key: i64, modulus: usize) -> usize {
    use sha1::{Digest, Sha1};
    let mut h = Sha1::new();
    h.update(key.to_string().as_bytes());
    let d = h.finalize();
    let last4 = &d[d.len() - 4..];
    let v = u32::from_be_bytes([last4[0], last4[1], last4[2], last4[3]]) as u64;
    (v % modulus as u64) as usize
}

pub fn partition(function: &str, key: i64, modulus: usize) -> usize {
    if function == "sha1" {
        sha1_partition(key, modulus)
    } else {
        pg_hash_partition(key, modulus)
    }
}

/// Vectors produced by PostgreSQL itself (tests/sharding/partition_hash_test_setup.sql, modulus 5)
/// and the SHA-1 vectors of the repository (modulus 12). Checked at the start of every parent run.
pub fn self_check() -> Result<(), String> {
    let pg: [&[i64]; 5] = [
        &[1, 4, 5, 14, 19, 39, 40, 46, 47, 53],
        &[2, 3, 11, 17, 21, 23, 30, 49, 51, 54],
        &[6, 7, 15, 16, 18, 20, 25, 28, 34, 35],
        &[8, 12, 13, 22, 29, 31, 33, 36, 41, 43],
        &[9, 10, 24, 26, 27, 32, 37, 38, 42, 45],
    ];
    for (rem, keys) in pg.iter().enumerate() {
        for k in keys.iter() {
            let got = pg_hash_partition(*k, 5);
            if got != rem {
                return Err(format!("pg_hash_partition({}, 5) = {}, PostgreSQL says {}", k, got, rem));
            }
        }
    }
    let sha = [4usize, 7, 8, 3, 6, 0, 0, 10, 3, 11, 1, 7, 4, 4, 11, 2, 5, 0, 8, 3];
    for (k, want) in sha.iter().enumerate() {
        let got = sha1_partition(k as i64, 12);
        if got != *want {
            return Err(format!("sha1_partition({}, 12) = {}, expected {}", k, got, want));
        }
    }
    Ok(())
}

// ------------------------------------------------------------------------------------------
// The routing command language
// ------------------------------------------------------------------------------------------

#[derive(Clone, Debug, PartialEq)]
pub enum Cmd {
    SetShardingKey(String),
    /// digits, or "ANY"
    SetShard(String),
    ShowShard,
    /// lower-cased role word
    SetServerRole(String),
    ShowServerRole,
    /// lower-cased on/off/default
    SetPrimaryReads(String),
    ShowPrimaryReads,
}

#[derive(Clone, Debug, PartialEq)]
pub enum Recognised {
    Command(Cmd),
    /// certainly not a command: must be forwarded untouched
    NotCommand,
    /// the documentation does not say (unusual white space, one-sided quote, unquoted role):
    /// either behaviour is accepted
    Grey,
}

/// Is the whole query one of the documented commands? Documented spellings: keywords in any
/// letter case separated by single spaces, the value optionally in single quotes (mandatory for
/// SET SERVER ROLE), optional spaces around, an optional trailing semicolon.
pub fn recognise(query: &str) -> Recognised {
    // anything but letters, digits, single spaces, quotes and one semicolon cannot be a command
    let mut body = query;
    let has_odd_space = body.chars().any(|c| c.is_whitespace() && c != ' ');
    body = body.trim_matches(' ');
    if let Some(b) = body.strip_suffix(';') {
        body = b.trim_end_matches(' ');
    }
    if body.is_empty() {
        return Recognised::NotCommand;
    }
    let words: Vec<&str> = body.split(' ').collect();
    let upper: Vec<String> = words.iter().map(|w| w.to_ascii_uppercase()).collect();
    let kw = |n: usize, ws: &[&str]| -> bool { upper.len() >= n && ws.iter().enumerate().all(|(i, w)| upper[i] == *w) };
    // a candidate only if it starts like a command at all
    let squeezed: Vec<String> = body.split_whitespace().map(|w| w.to_ascii_uppercase()).collect();
    let starts = |ws: &[&str]| -> bool { squeezed.len() >= ws.len() && ws.iter().enumerate().all(|(i, w)| squeezed[i] == *w) };
    let family = [
        &["SET", "SHARDING", "KEY", "TO"][..],
        &["SET", "SHARD", "TO"][..],
        &["SHOW", "SHARD"][..],
        &["SET", "SERVER", "ROLE", "TO"][..],
        &["SHOW", "SERVER", "ROLE"][..],
        &["SET", "PRIMARY", "READS", "TO"][..],
        &["SHOW", "PRIMARY", "READS"][..],
    ];
    if !family.iter().any(|f| starts(f)) {
        return Recognised::NotCommand;
    }
    // unusual white space inside something that looks like a command: undocumented
    if has_odd_space || words.iter().any(|w| w.is_empty()) {
        // "SET  SHARD TO 1": the documentation shows single spaces only
        return Recognised::Grey;
    }
    let value = |w: &str| -> Option<(String, bool)> {
        // (bare value, quoted?) ; None when quotes are one-sided or the value is empty
        let q0 = w.starts_with('\'');
        let q1 = w.ends_with('\'') && w.len() >= 2;
        if q0 != q1 && (q0 || w.ends_with('\'')) {
            return None;
        }
        let inner = if q0 && q1 { &w[1..w.len() - 1] } else { w };
        if inner.is_empty() || inner.contains('\'') {
            return None;
        }
        Some((inner.to_string(), q0 && q1))
    };
    let digits = |s: &str| !s.is_empty() && s.bytes().all(|b| b.is_ascii_digit());
    if kw(4, &["SET", "SHARDING", "KEY", "TO"]) {
        if words.len() != 5 {
            return Recognised::NotCommand;
        }
        return match value(words[4]) {
            None => if words[4].contains('\'') { Recognised::Grey } else { Recognised::NotCommand },
            Some((v, _)) if digits(&v) => Recognised::Command(Cmd::SetShardingKey(v)),
            Some(_) => Recognised::NotCommand,
        };
    }
    if kw(3, &["SET", "SHARD", "TO"]) {
        if words.len() != 4 {
            return Recognised::NotCommand;
        }
        return match value(words[3]) {
            None => if words[3].contains('\'') { Recognised::Grey } else { Recognised::NotCommand },
            Some((v, _)) if digits(&v) => Recognised::Command(Cmd::SetShard(v)),
            Some((v, _)) if v.eq_ignore_ascii_case("any") => Recognised::Command(Cmd::SetShard("ANY".into())),
            Some(_) => Recognised::NotCommand,
        };
    }
    if kw(2, &["SHOW", "SHARD"]) {
        return if words.len() == 2 { Recognised::Command(Cmd::ShowShard) } else { Recognised::NotCommand };
    }
    if kw(4, &["SET", "SERVER", "ROLE", "TO"]) {
        if words.len() != 5 {
            return Recognised::NotCommand;
        }
        return match value(words[4]) {
            None => if words[4].contains('\'') { Recognised::Grey } else { Recognised::NotCommand },
            Some((v, quoted)) => {
                let l = v.to_ascii_lowercase();
                if ["primary", "replica", "any", "auto", "default"].contains(&l.as_str()) {
                    if quoted { Recognised::Command(Cmd::SetServerRole(l)) } else { Recognised::Grey }
                } else {
                    Recognised::NotCommand
                }
            }
        };
    }
    if kw(3, &["SHOW", "SERVER", "ROLE"]) {
        return if words.len() == 3 { Recognised::Command(Cmd::ShowServerRole) } else { Recognised::NotCommand };
    }
    if kw(4, &["SET", "PRIMARY", "READS", "TO"]) {
        if words.len() != 5 {
            return Recognised::NotCommand;
        }
        return match value(words[4]) {
            None => if words[4].contains('\'') { Recognised::Grey } else { Recognised::NotCommand },
            Some((v, _)) => {
                let l = v.to_ascii_lowercase();
                if ["on", "off", "default"].contains(&l.as_str()) { Recognised::Command(Cmd::SetPrimaryReads(l)) } else { Recognised::NotCommand }
            }
        };
    }
    if kw(3, &["SHOW", "PRIMARY", "READS"]) {
        return if words.len() == 3 { Recognised::Command(Cmd::ShowPrimaryReads) } else { Recognised::NotCommand };
    }
    Recognised::NotCommand
}
