//! Session semantics of the mock PostgreSQL backend: a synchronous state machine from one
//! frontend message to the backend messages it produces. It models exactly what a pooler has
//! to reason about: transaction status, COPY state, run-time parameters with their scoping,
//! role, SQL-level and protocol-level prepared statements, portals, and the extended-protocol
//! error-skips-to-Sync rule. Everything else about SQL is keyword dispatch.

use crate::proto::{self, Msg, Reader};
use crate::sqlmini::{self, Tag};
use std::collections::BTreeMap;

#[derive(Clone, Debug)]
pub struct Prepared {
    pub sql: String,
    pub types: Vec<i32>,
    pub from_sql: bool,
}

#[derive(Clone, Debug)]
pub struct Portal {
    pub stmt_name: String,
    pub sql: String,
    pub types: Vec<i32>,
    pub params: Vec<Option<Vec<u8>>>,
    pub rows_total: usize,
    pub rows_sent: usize,
}

/// What the session looked like just before a statement ran.
#[derive(Clone, Debug, Default)]
pub struct Snapshot {
    pub txn: u8,
    pub in_copy: bool,
    /// effective values of every parameter that differs from the server default, plus the five
    /// tracked ones always
    pub gucs: BTreeMap<String, String>,
    pub prepared: Vec<String>,
    pub sql_prepared: Vec<String>,
}

#[derive(Clone, Debug, PartialEq, Eq)]
pub enum Via {
    Simple,
    Execute,
    Parse,
    Describe,
}

#[derive(Clone, Debug)]
pub struct StmtRec {
    pub seq: u64,
    pub sql: String,
    pub tags: Vec<Tag>,
    pub via: Via,
    pub snap: Snapshot,
    pub stmt_name: String,
    pub types: Vec<i32>,
    pub params: Vec<Option<Vec<u8>>>,
    pub error: Option<String>,
    pub cmd_tag: String,
}

pub const REPORTED: [&str; 5] = ["client_encoding", "datestyle", "timezone", "standard_conforming_strings", "application_name"];

pub fn display_name(k: &str) -> &str {
    match k {
        "datestyle" => "DateStyle",
        "timezone" => "TimeZone",
        "intervalstyle" => "IntervalStyle",
        other => other,
    }
}

fn server_defaults() -> BTreeMap<String, String> {
    let mut m = BTreeMap::new();
    for (k, v) in [
        ("client_encoding", "UTF8"),
        ("datestyle", "ISO, MDY"),
        ("timezone", "Etc/UTC"),
        ("standard_conforming_strings", "on"),
        ("application_name", ""),
        ("statement_timeout", "0"),
        ("lock_timeout", "0"),
        ("idle_in_transaction_session_timeout", "0"),
        ("search_path", "\"$user\", public"),
        ("work_mem", "4MB"),
        ("extra_float_digits", "1"),
        ("intervalstyle", "postgres"),
        ("default_transaction_isolation", "read committed"),
        ("default_transaction_read_only", "off"),
        ("role", "none"),
        ("synchronous_commit", "on"),
        ("bytea_output", "hex"),
        ("enable_seqscan", "on"),
    ] {
        m.insert(k.to_string(), v.to_string());
    }
    m
}

fn validate_guc(name: &str, value: &str) -> bool {
    match name {
        "client_encoding" => ["UTF8", "LATIN1", "SQL_ASCII", "WIN1252"].contains(&value),
        "datestyle" => ["ISO, MDY", "ISO, DMY", "ISO, YMD", "SQL, DMY", "SQL, MDY", "Postgres, MDY", "Postgres, DMY", "German, DMY"].contains(&value),
        "timezone" => ["Etc/UTC", "UTC", "GMT", "America/New_York", "Europe/Berlin", "Asia/Tokyo", "America/Los_Angeles"].contains(&value),
        "standard_conforming_strings" | "synchronous_commit" | "enable_seqscan" | "default_transaction_read_only" => ["on", "off"].contains(&value),
        "statement_timeout" | "lock_timeout" | "idle_in_transaction_session_timeout" | "extra_float_digits" => value.trim_end_matches("ms").trim_end_matches('s').parse::<i64>().is_ok(),
        _ => true,
    }
}

pub struct PgSession {
    pub pid: i32,
    pub txn: u8,
    pub copy_in: Option<(bool, usize)>, // (started by simple protocol, bytes received)
    /// statements of the simple-protocol message that follow the COPY FROM STDIN in progress
    pub copy_rest: Vec<String>,
    pub ext_error: bool,
    pub in_ext_batch: bool,
    defaults: BTreeMap<String, String>,
    session_defaults: BTreeMap<String, String>,
    session: BTreeMap<String, String>,
    local: BTreeMap<String, String>,
    txn_snapshot: Option<BTreeMap<String, String>>,
    implicit_snapshot: Option<BTreeMap<String, String>>,
    reported: BTreeMap<String, String>,
    pub prepared: BTreeMap<String, Prepared>,
    pub portals: BTreeMap<String, Portal>,
    pub stmts: Vec<StmtRec>,
    /// user -> "md5<hash>" rows served to auth_query lookups
    pub shadow: BTreeMap<String, String>,
    pub closed: bool,
}

pub struct Outcome {
    pub msgs: Vec<Msg>,
    pub close: bool,
}

impl PgSession {
    pub fn new(pid: i32) -> PgSession {
        PgSession {
            pid,
            txn: b'I',
            copy_in: None,
            copy_rest: Vec::new(),
            ext_error: false,
            in_ext_batch: false,
            defaults: server_defaults(),
            session_defaults: BTreeMap::new(),
            session: BTreeMap::new(),
            local: BTreeMap::new(),
            txn_snapshot: None,
            implicit_snapshot: None,
            reported: BTreeMap::new(),
            prepared: BTreeMap::new(),
            portals: BTreeMap::new(),
            stmts: Vec::new(),
            shadow: BTreeMap::new(),
            closed: false,
        }
    }

    pub fn guc(&self, name: &str) -> String {
        let k = name.to_ascii_lowercase();
        self.local
            .get(&k)
            .or_else(|| self.session.get(&k))
            .or_else(|| self.session_defaults.get(&k))
            .or_else(|| self.defaults.get(&k))
            .cloned()
            .unwrap_or_default()
    }

    /// Apply startup-packet parameters; returns Err(message) for an invalid value.
    pub fn apply_startup(&mut self, params: &[(String, String)]) -> Result<(), String> {
        for (k, v) in params {
            let k = k.to_ascii_lowercase();
            if k == "user" || k == "database" || k == "options" || k == "replication" {
                continue;
            }
            if !self.defaults.contains_key(&k) && !k.contains('.') {
                return Err(format!("unrecognized configuration parameter \"{}\"", k));
            }
            if !validate_guc(&k, v) {
                return Err(format!("invalid value for parameter \"{}\": \"{}\"", k, v));
            }
            self.session_defaults.insert(k, v.clone());
        }
        Ok(())
    }

    /// ParameterStatus messages sent at the end of startup.
    pub fn startup_status(&mut self) -> Vec<Msg> {
        let mut out = Vec::new();
        for (k, v) in [
            ("in_hot_standby", "off".to_string()),
            ("integer_datetimes", "on".to_string()),
            ("is_superuser", "off".to_string()),
            ("server_encoding", "UTF8".to_string()),
            ("server_version", "14.9 (sim)".to_string()),
            ("session_authorization", "sim".to_string()),
            ("IntervalStyle", "postgres".to_string()),
            ("default_transaction_read_only", "off".to_string()),
        ] {
            out.push(proto::param_status(k, &v));
        }
        for k in REPORTED {
            let v = self.guc(k);
            self.reported.insert(k.to_string(), v.clone());
            out.push(proto::param_status(display_name(k), &v));
        }
        out
    }

    pub fn snapshot(&self) -> Snapshot {
        let mut gucs = BTreeMap::new();
        let mut keys: Vec<&String> = self.session.keys().chain(self.local.keys()).chain(self.session_defaults.keys()).collect();
        keys.sort();
        keys.dedup();
        for k in keys {
            let v = self.guc(k);
            if self.defaults.get(k.as_str()) != Some(&v) {
                gucs.insert(k.clone(), v);
            }
        }
        for k in REPORTED {
            gucs.insert(k.to_string(), self.guc(k));
        }
        Snapshot {
            txn: self.txn,
            in_copy: self.copy_in.is_some(),
            gucs,
            prepared: self.prepared.iter().filter(|(_, p)| !p.from_sql).map(|(k, _)| k.clone()).collect(),
            sql_prepared: self.prepared.iter().filter(|(_, p)| p.from_sql).map(|(k, _)| k.clone()).collect(),
        }
    }

    fn report_changes(&mut self, out: &mut Vec<Msg>) {
        for k in REPORTED {
            let v = self.guc(k);
            if self.reported.get(k) != Some(&v) {
                self.reported.insert(k.to_string(), v.clone());
                out.push(proto::param_status(display_name(k), &v));
            }
        }
    }

    fn ready(&mut self, out: &mut Vec<Msg>) {
        self.report_changes(out);
        out.push(proto::ready(self.txn));
    }

    fn begin_implicit(&mut self) {
        if self.txn == b'I' && self.implicit_snapshot.is_none() {
            self.implicit_snapshot = Some(self.session.clone());
        }
    }

    fn end_implicit(&mut self, failed: bool) {
        if let Some(snap) = self.implicit_snapshot.take() {
            if failed && self.txn == b'I' {
                self.session = snap;
            }
        }
        if self.txn == b'I' {
            self.local.clear();
            // unnamed portal does not survive the end of a transaction
            self.portals.clear();
        }
    }

    fn err(&mut self, out: &mut Vec<Msg>, code: &str, msg: &str) {
        out.push(proto::error_response("ERROR", code, msg));
        if self.txn == b'T' {
            self.txn = b'E';
        }
    }

    /// Handle one frontend message. `cancelled`: a CancelRequest hit this session while the
    /// statement was sleeping.
    pub fn handle(&mut self, m: &Msg, seq: u64, cancelled: bool) -> Outcome {
        let mut out = Vec::new();
        let mut close = false;

        // COPY IN sub-protocol
        if let Some((simple, bytes)) = self.copy_in {
            match m.ty {
                b'd' => {
                    self.copy_in = Some((simple, bytes + m.body.len()));
                    return Outcome { msgs: out, close };
                }
                b'c' => {
                    self.copy_in = None;
                    out.push(proto::command_complete(&format!("COPY {}", bytes)));
                    if simple {
                        let rest = std::mem::take(&mut self.copy_rest);
                        self.run_statements(rest, seq, cancelled, &mut out);
                    }
                    return Outcome { msgs: out, close };
                }
                b'f' => {
                    self.copy_in = None;
                    self.copy_rest.clear();
                    let mut r = Reader::new(&m.body);
                    let why = r.cstr().unwrap_or_default();
                    self.err(&mut out, "57014", &format!("COPY from stdin failed: {}", why));
                    if simple {
                        self.end_implicit(true);
                        self.ready(&mut out);
                    } else {
                        self.ext_error = true;
                    }
                    return Outcome { msgs: out, close };
                }
                b'H' | b'S' => {
                    // Flush and Sync are ignored while in COPY IN
                    return Outcome { msgs: out, close };
                }
                b'X' => {
                    self.closed = true;
                    return Outcome { msgs: out, close: true };
                }
                _ => {
                    // Any other message type during COPY IN is a protocol violation. PostgreSQL raises
                    // the ERROR while it is in the middle of reading the message, and then terminates
                    // the session: "terminating connection because protocol synchronization was lost".
                    self.copy_in = None;
                    self.err(&mut out, "08P01", &format!("unexpected message type 0x{:02X} during COPY from stdin", m.ty));
                    out.push(proto::error_response("FATAL", "08P01", "terminating connection because protocol synchronization was lost"));
                    self.closed = true;
                    return Outcome { msgs: out, close: true };
                }
            }
        }

        match m.ty {
            b'Q' => {
                let mut r = Reader::new(&m.body);
                let sql = match r.cstr() {
                    Some(s) => s,
                    None => {
                        out.push(proto::error_response("FATAL", "08P01", "invalid string in message"));
                        return Outcome { msgs: out, close: true };
                    }
                };
                self.in_ext_batch = false;
                self.ext_error = false;
                self.simple_query(&sql, seq, cancelled, &mut out);
            }
            b'P' | b'B' | b'D' | b'E' | b'C' | b'H' | b'S' => {
                if m.ty == b'S' {
                    self.ext_error = false;
                    self.in_ext_batch = false;
                    let failed = false;
                    self.end_implicit(failed);
                    self.ready(&mut out);
                } else if self.ext_error {
                    // skipped until Sync
                } else if m.ty == b'H' {
                    // nothing to do: replies are never withheld
                } else {
                    self.in_ext_batch = true;
                    self.begin_implicit();
                    let before = out.len();
                    let ok = self.extended(m, seq, cancelled, &mut out);
                    let _ = before;
                    if !ok {
                        self.ext_error = true;
                        self.end_implicit(true);
                    }
                }
            }
            b'X' => {
                self.closed = true;
                close = true;
            }
            b'd' | b'c' | b'f' => {
                // copy messages outside COPY mode are ignored
            }
            b'p' => {
                // stray password message: protocol violation
                out.push(proto::error_response("FATAL", "08P01", "invalid frontend message type 112"));
                close = true;
            }
            other => {
                out.push(proto::error_response("FATAL", "08P01", &format!("invalid frontend message type {}", other)));
                close = true;
            }
        }
        Outcome { msgs: out, close }
    }

    fn record(&mut self, seq: u64, sql: &str, via: Via, stmt_name: &str, types: &[i32], params: &[Option<Vec<u8>>]) -> usize {
        let mut tags = sqlmini::find_tags(sql.as_bytes());
        for p in params.iter().flatten() {
            tags.extend(sqlmini::find_tags(p));
        }
        let snap = self.snapshot();
        self.stmts.push(StmtRec { seq, sql: sql.to_string(), tags, via, snap, stmt_name: stmt_name.to_string(), types: types.to_vec(), params: params.to_vec(), error: None, cmd_tag: String::new() });
        self.stmts.len() - 1
    }

    fn simple_query(&mut self, sql: &str, seq: u64, cancelled: bool, out: &mut Vec<Msg>) {
        let stmts = match sqlmini::split_statements(sql) {
            Ok(s) => s,
            Err(e) => {
                let idx = self.record(seq, sql, Via::Simple, "", &[], &[]);
                let msg = match e {
                    sqlmini::LexError::UnterminatedString => "unterminated quoted string",
                    sqlmini::LexError::UnterminatedIdent => "unterminated quoted identifier",
                    sqlmini::LexError::UnterminatedComment => "unterminated /* comment",
                };
                self.stmts[idx].error = Some("42601".into());
                self.err(out, "42601", msg);
                self.ready(out);
                return;
            }
        };
        if stmts.is_empty() {
            self.record(seq, sql, Via::Simple, "", &[], &[]);
            out.push(proto::empty_query());
            self.ready(out);
            return;
        }
        // syntax check of every statement before anything runs (raw parsing is per message)
        for s in &stmts {
            if classify(s) == Kind::Unknown {
                let idx = self.record(seq, s, Via::Simple, "", &[], &[]);
                self.stmts[idx].error = Some("42601".into());
                let kw = sqlmini::keywords(s, 1);
                self.err(out, "42601", &format!("syntax error at or near \"{}\"", kw.first().cloned().unwrap_or_default()));
                self.ready(out);
                return;
            }
        }
        self.begin_implicit();
        self.run_statements(stmts, seq, cancelled, out);
    }

    /// The statements of one simple-protocol message, one after the other; a COPY FROM STDIN
    /// suspends the message until the copy ends, then the rest runs (as in PostgreSQL).
    fn run_statements(&mut self, stmts: Vec<String>, seq: u64, cancelled: bool, out: &mut Vec<Msg>) {
        let mut failed = false;
        let mut cancelled = cancelled;
        for (i, s) in stmts.iter().enumerate() {
            let idx = self.record(seq, s, Via::Simple, "", &[], &[]);
            let c = cancelled && sqlmini::has_directive(s, "sim_sleep");
            if c {
                cancelled = false;
            }
            match self.exec(s, &[], None, c, out) {
                Ok(tag) => {
                    self.stmts[idx].cmd_tag = tag;
                    if self.copy_in.is_some() {
                        // COPY FROM STDIN: the rest of the message is not executed until the copy ends
                        self.copy_in = Some((true, 0));
                        self.copy_rest = stmts[i + 1..].to_vec();
                        return;
                    }
                }
                Err((code, msg)) => {
                    self.stmts[idx].error = Some(code.clone());
                    self.err(out, &code, &msg);
                    failed = true;
                    break;
                }
            }
        }
        self.end_implicit(failed);
        self.ready(out);
    }

    /// Returns false when the message produced an ErrorResponse.
    fn extended(&mut self, m: &Msg, seq: u64, cancelled: bool, out: &mut Vec<Msg>) -> bool {
        let mut r = Reader::new(&m.body);
        macro_rules! bad {
            () => {{
                self.err(out, "08P01", "invalid message format");
                return false;
            }};
        }
        match m.ty {
            b'P' => {
                let name = match r.cstr() { Some(s) => s, None => bad!() };
                let sql = match r.cstr() { Some(s) => s, None => bad!() };
                let n = match r.i16() { Some(n) if n >= 0 => n, _ => bad!() };
                let mut types = Vec::new();
                for _ in 0..n {
                    match r.i32() { Some(t) => types.push(t), None => bad!() }
                }
                if r.remaining() != 0 { bad!() }
                let idx = self.record(seq, &sql, Via::Parse, &name, &types, &[]);
                if self.txn == b'E' {
                    self.stmts[idx].error = Some("25P02".into());
                    self.err(out, "25P02", "current transaction is aborted, commands ignored until end of transaction block");
                    return false;
                }
                let stmts = match sqlmini::split_statements(&sql) {
                    Ok(s) => s,
                    Err(_) => {
                        self.stmts[idx].error = Some("42601".into());
                        self.err(out, "42601", "unterminated quoted string");
                        return false;
                    }
                };
                if stmts.len() > 1 {
                    self.stmts[idx].error = Some("42601".into());
                    self.err(out, "42601", "cannot insert multiple commands into a prepared statement");
                    return false;
                }
                if let Some(s) = stmts.first() {
                    if classify(s) == Kind::Unknown || sqlmini::has_directive(s, "sim_parse_error") {
                        self.stmts[idx].error = Some("42601".into());
                        self.err(out, "42601", "syntax error in prepared statement");
                        return false;
                    }
                }
                if !name.is_empty() && self.prepared.contains_key(&name) {
                    self.stmts[idx].error = Some("42P05".into());
                    self.err(out, "42P05", &format!("prepared statement \"{}\" already exists", name));
                    return false;
                }
                let np = sqlmini::max_placeholder(&sql);
                while types.len() < np {
                    types.push(0);
                }
                self.prepared.insert(name, Prepared { sql, types, from_sql: false });
                out.push(proto::parse_complete());
                true
            }
            b'B' => {
                let portal = match r.cstr() { Some(s) => s, None => bad!() };
                let stmt = match r.cstr() { Some(s) => s, None => bad!() };
                let nf = match r.i16() { Some(n) if n >= 0 => n, _ => bad!() };
                let mut formats = Vec::new();
                for _ in 0..nf {
                    match r.i16() { Some(f) if f == 0 || f == 1 => formats.push(f), _ => bad!() }
                }
                let np = match r.i16() { Some(n) if n >= 0 => n, _ => bad!() };
                let mut params = Vec::new();
                for _ in 0..np {
                    match r.i32() {
                        Some(-1) => params.push(None),
                        Some(l) if l >= 0 => match r.bytes(l as usize) { Some(b) => params.push(Some(b.to_vec())), None => bad!() },
                        _ => bad!(),
                    }
                }
                let nr = match r.i16() { Some(n) if n >= 0 => n, _ => bad!() };
                for _ in 0..nr {
                    match r.i16() { Some(f) if f == 0 || f == 1 => (), _ => bad!() }
                }
                if r.remaining() != 0 { bad!() }
                if !(nf == 0 || nf == 1 || nf == np) { bad!() }
                if self.txn == b'E' {
                    self.err(out, "25P02", "current transaction is aborted, commands ignored until end of transaction block");
                    return false;
                }
                let p = match self.prepared.get(&stmt) {
                    Some(p) => p.clone(),
                    None => {
                        let idx = self.record(seq, "", Via::Execute, &stmt, &[], &params);
                        self.stmts[idx].error = Some("26000".into());
                        if stmt.is_empty() {
                            self.err(out, "26000", "unnamed prepared statement does not exist");
                        } else {
                            self.err(out, "26000", &format!("prepared statement \"{}\" does not exist", stmt));
                        }
                        return false;
                    }
                };
                if params.len() != p.types.len() {
                    self.err(out, "08P01", &format!("bind message supplies {} parameters, but prepared statement \"{}\" requires {}", params.len(), stmt, p.types.len()));
                    return false;
                }
                let rows_total = if matches!(classify(&p.sql), Kind::Select) { sqlmini::directive(&p.sql, "sim_rows").unwrap_or(1) as usize } else { 0 };
                self.portals.insert(portal, Portal { stmt_name: stmt, sql: p.sql, types: p.types, params, rows_total, rows_sent: 0 });
                out.push(proto::bind_complete());
                true
            }
            b'D' => {
                let kind = match r.u8() { Some(k) => k, None => bad!() };
                let name = match r.cstr() { Some(s) => s, None => bad!() };
                if r.remaining() != 0 { bad!() }
                match kind {
                    b'S' => match self.prepared.get(&name) {
                        Some(p) => {
                            out.push(proto::param_description(&p.types));
                            if matches!(classify(&p.sql), Kind::Select | Kind::Show) {
                                out.push(proto::row_description(&ROW_COLS));
                            } else {
                                out.push(proto::no_data());
                            }
                            true
                        }
                        None => {
                            self.err(out, "26000", &format!("prepared statement \"{}\" does not exist", name));
                            false
                        }
                    },
                    b'P' => match self.portals.get(&name) {
                        Some(p) => {
                            if matches!(classify(&p.sql), Kind::Select | Kind::Show) {
                                out.push(proto::row_description(&ROW_COLS));
                            } else {
                                out.push(proto::no_data());
                            }
                            true
                        }
                        None => {
                            self.err(out, "34000", &format!("portal \"{}\" does not exist", name));
                            false
                        }
                    },
                    _ => bad!(),
                }
            }
            b'E' => {
                let portal = match r.cstr() { Some(s) => s, None => bad!() };
                let max = match r.i32() { Some(n) => n, None => bad!() };
                if r.remaining() != 0 { bad!() }
                let p = match self.portals.get(&portal) {
                    Some(p) => p.clone(),
                    None => {
                        self.err(out, "34000", &format!("portal \"{}\" does not exist", portal));
                        return false;
                    }
                };
                let idx = self.record(seq, &p.sql, Via::Execute, &p.stmt_name, &p.types, &p.params);
                if p.sql.trim().is_empty() || sqlmini::split_statements(&p.sql).map(|v| v.is_empty()).unwrap_or(false) {
                    out.push(proto::empty_query());
                    return true;
                }
                let c = cancelled && sqlmini::has_directive(&p.sql, "sim_sleep");
                match self.exec(&p.sql, &p.params, Some((&portal, max)), c, out) {
                    Ok(tag) => {
                        self.stmts[idx].cmd_tag = tag;
                        if self.copy_in.is_some() {
                            self.copy_in = Some((false, 0));
                        }
                        true
                    }
                    Err((code, msg)) => {
                        self.stmts[idx].error = Some(code.clone());
                        self.err(out, &code, &msg);
                        false
                    }
                }
            }
            b'C' => {
                let kind = match r.u8() { Some(k) => k, None => bad!() };
                let name = match r.cstr() { Some(s) => s, None => bad!() };
                if r.remaining() != 0 { bad!() }
                match kind {
                    b'S' => {
                        self.prepared.remove(&name);
                    }
                    b'P' => {
                        self.portals.remove(&name);
                    }
                    _ => bad!(),
                }
                out.push(proto::close_complete());
                true
            }
            _ => true,
        }
    }

    /// Execute one statement. Returns the command tag or (sqlstate, message).
    fn exec(&mut self, sql: &str, params: &[Option<Vec<u8>>], portal: Option<(&str, i32)>, cancelled: bool, out: &mut Vec<Msg>) -> Result<String, (String, String)> {
        let kind = classify(sql);
        if self.txn == b'E' && !matches!(kind, Kind::Commit | Kind::Rollback | Kind::RollbackTo) {
            return Err(("25P02".into(), "current transaction is aborted, commands ignored until end of transaction block".into()));
        }
        if cancelled {
            return Err(("57014".into(), "canceling statement due to user request".into()));
        }
        if sqlmini::has_directive(sql, "sim_error_nonutf8") {
            return Err(("42601".into(), "syntax error at or near \"\u{1}\"".into()));
        }
        if sqlmini::has_directive(sql, "sim_error") {
            let tags = sqlmini::find_tags(sql.as_bytes());
            return Err(("XX000".into(), format!("sim_error {}", tags.first().map(|t| t.to_string()).unwrap_or_default())));
        }
        if let Some(n) = sqlmini::directive(sql, "sim_notice") {
            for i in 0..n.max(1) {
                out.push(proto::notice_response("NOTICE", "00000", &format!("sim notice {}", i)));
            }
        }
        let kws = sqlmini::keywords(sql, 4);
        let kw = |i: usize| kws.get(i).map(|s| s.as_str()).unwrap_or("");
        match kind {
            Kind::Unknown => Err(("42601".into(), format!("syntax error at or near \"{}\"", kw(0)))),
            Kind::Begin => {
                if self.txn == b'T' {
                    out.push(proto::notice_response("WARNING", "25001", "there is already a transaction in progress"));
                } else {
                    self.txn = b'T';
                    let snap = self.implicit_snapshot.take().unwrap_or_else(|| self.session.clone());
                    self.txn_snapshot = Some(snap);
                }
                out.push(proto::command_complete("BEGIN"));
                Ok("BEGIN".into())
            }
            Kind::Commit => {
                let tag = match self.txn {
                    b'E' => {
                        if let Some(s) = self.txn_snapshot.take() {
                            self.session = s;
                        }
                        "ROLLBACK"
                    }
                    b'T' => {
                        self.txn_snapshot = None;
                        "COMMIT"
                    }
                    _ => {
                        out.push(proto::notice_response("WARNING", "25P01", "there is no transaction in progress"));
                        "COMMIT"
                    }
                };
                self.txn = b'I';
                self.local.clear();
                self.portals.clear();
                out.push(proto::command_complete(tag));
                Ok(tag.into())
            }
            Kind::Rollback => {
                if self.txn == b'I' {
                    out.push(proto::notice_response("WARNING", "25P01", "there is no transaction in progress"));
                }
                if let Some(s) = self.txn_snapshot.take() {
                    self.session = s;
                }
                self.txn = b'I';
                self.local.clear();
                self.portals.clear();
                out.push(proto::command_complete("ROLLBACK"));
                Ok("ROLLBACK".into())
            }
            Kind::RollbackTo => {
                if self.txn == b'I' {
                    return Err(("25P01".into(), "ROLLBACK TO SAVEPOINT can only be used in transaction blocks".into()));
                }
                self.txn = b'T';
                out.push(proto::command_complete("ROLLBACK"));
                Ok("ROLLBACK".into())
            }
            Kind::Savepoint => {
                if self.txn == b'I' {
                    return Err(("25P01".into(), "SAVEPOINT can only be used in transaction blocks".into()));
                }
                out.push(proto::command_complete("SAVEPOINT"));
                Ok("SAVEPOINT".into())
            }
            Kind::Release => {
                out.push(proto::command_complete("RELEASE"));
                Ok("RELEASE".into())
            }
            Kind::Set => self.exec_set(sql, out),
            Kind::Reset => {
                let name = kw(1).to_ascii_lowercase();
                if name == "all" {
                    let role = self.session.get("role").cloned();
                    self.session.clear();
                    if let Some(r) = role {
                        self.session.insert("role".into(), r);
                    }
                    let lrole = self.local.get("role").cloned();
                    self.local.clear();
                    if let Some(r) = lrole {
                        self.local.insert("role".into(), r);
                    }
                } else if name == "session" {
                    // RESET SESSION AUTHORIZATION
                } else {
                    if !self.defaults.contains_key(&name) && !name.contains('.') {
                        return Err(("42704".into(), format!("unrecognized configuration parameter \"{}\"", name)));
                    }
                    self.session.remove(&name);
                    self.local.remove(&name);
                }
                out.push(proto::command_complete("RESET"));
                Ok("RESET".into())
            }
            Kind::Show => {
                let name = strip_stmt(sql)[4..].trim().trim_end_matches(';').trim().to_ascii_lowercase();
                let v = self.guc(&name);
                if portal.is_none() {
                    out.push(proto::row_description(&[display_name(&name)]));
                }
                out.push(proto::data_row(&[v.as_bytes()]));
                out.push(proto::command_complete("SHOW"));
                Ok("SHOW".into())
            }
            Kind::Discard => {
                let what = kw(1);
                if what == "ALL" {
                    if self.txn != b'I' {
                        return Err(("25001".into(), "DISCARD ALL cannot run inside a transaction block".into()));
                    }
                    self.session.clear();
                    self.local.clear();
                    self.prepared.clear();
                    self.portals.clear();
                    self.implicit_snapshot = None;
                } else if what == "PLANS" || what == "SEQUENCES" || what == "TEMP" || what == "TEMPORARY" {
                } else {
                    return Err(("42601".into(), "syntax error in DISCARD".into()));
                }
                let tag = format!("DISCARD {}", what);
                out.push(proto::command_complete(&tag));
                Ok(tag)
            }
            Kind::Prepare => {
                // PREPARE name [(types)] AS stmt
                let body = strip_stmt(sql);
                let rest = body[7..].trim_start();
                let name_end = rest.find(|c: char| c.is_whitespace() || c == '(').unwrap_or(rest.len());
                let name = rest[..name_end].to_string();
                let upper = rest.to_ascii_uppercase();
                let as_pos = match upper.find(" AS ") {
                    Some(p) => p,
                    None => return Err(("42601".into(), "syntax error in PREPARE".into())),
                };
                let inner = rest[as_pos + 4..].trim().to_string();
                if name.is_empty() {
                    return Err(("42601".into(), "syntax error in PREPARE".into()));
                }
                if self.prepared.contains_key(&name) {
                    return Err(("42P05".into(), format!("prepared statement \"{}\" already exists", name)));
                }
                if classify(&inner) == Kind::Unknown {
                    return Err(("42601".into(), "syntax error in prepared statement".into()));
                }
                let np = sqlmini::max_placeholder(&inner);
                self.prepared.insert(name, Prepared { sql: inner, types: vec![0; np], from_sql: true });
                out.push(proto::command_complete("PREPARE"));
                Ok("PREPARE".into())
            }
            Kind::ExecuteSql => {
                let body = strip_stmt(sql);
                let rest = body[7..].trim_start();
                let name_end = rest.find(|c: char| c.is_whitespace() || c == '(').unwrap_or(rest.len());
                let name = rest[..name_end].to_string();
                let p = match self.prepared.get(&name) {
                    Some(p) => p.clone(),
                    None => return Err(("26000".into(), format!("prepared statement \"{}\" does not exist", name))),
                };
                self.exec(&p.sql, params, portal, false, out)
            }
            Kind::Deallocate => {
                let mut name = kw(1).to_string();
                if name == "PREPARE" {
                    name = kw(2).to_string();
                }
                if name == "ALL" {
                    self.prepared.clear();
                    out.push(proto::command_complete("DEALLOCATE ALL"));
                    return Ok("DEALLOCATE ALL".into());
                }
                // names are case-sensitive when they were given quoted; we only generate lower-case names
                let body = strip_stmt(sql);
                let last = body.trim_end_matches(';').split_whitespace().last().unwrap_or("").to_string();
                if self.prepared.remove(&last).is_none() && self.prepared.remove(&last.to_ascii_lowercase()).is_none() {
                    return Err(("26000".into(), format!("prepared statement \"{}\" does not exist", last)));
                }
                out.push(proto::command_complete("DEALLOCATE"));
                Ok("DEALLOCATE".into())
            }
            Kind::Copy => {
                let up = strip_stmt(sql).to_ascii_uppercase();
                if up.contains("FROM STDIN") {
                    out.push(proto::copy_in_response());
                    self.copy_in = Some((true, 0));
                    Ok("COPY".into())
                } else if up.contains("TO STDOUT") {
                    let n = sqlmini::directive(sql, "sim_rows").unwrap_or(2) as usize;
                    let pad = sqlmini::directive(sql, "sim_pad").unwrap_or(0) as usize;
                    let tags = sqlmini::find_tags(sql.as_bytes());
                    let tag = tags.first().map(|t| t.to_string()).unwrap_or_default();
                    out.push(proto::copy_out_response());
                    let fail_after = sqlmini::directive(sql, "sim_error_after").map(|k| k as usize);
                    for i in 0..n {
                        if fail_after == Some(i) {
                            return Err(("XX000".into(), format!("sim_error_after {} rows of COPY {}", i, tag)));
                        }
                        let mut line = format!("{}\t{}\t{}\t", tag, self.pid, i).into_bytes();
                        line.extend(std::iter::repeat(b'x').take(pad));
                        line.push(b'\n');
                        out.push(proto::copy_data(&line));
                    }
                    out.push(proto::copy_done());
                    let t = format!("COPY {}", n);
                    out.push(proto::command_complete(&t));
                    Ok(t)
                } else {
                    out.push(proto::command_complete("COPY 0"));
                    Ok("COPY 0".into())
                }
            }
            Kind::Select => {
                // auth_query lookup
                if let Some(user) = auth_lookup_user(sql) {
                    if portal.is_none() {
                        out.push(proto::row_description(&["usename", "passwd"]));
                    }
                    let n = match self.shadow.get(&user) {
                        Some(h) => {
                            out.push(proto::data_row(&[user.as_bytes(), h.as_bytes()]));
                            1
                        }
                        None => 0,
                    };
                    let t = format!("SELECT {}", n);
                    out.push(proto::command_complete(&t));
                    return Ok(t);
                }
                let total = sqlmini::directive(sql, "sim_rows").unwrap_or(1) as usize;
                let pad = sqlmini::directive(sql, "sim_pad").unwrap_or(0) as usize;
                let tags = sqlmini::find_tags(sql.as_bytes());
                let tag = tags.first().map(|t| t.to_string()).unwrap_or_default();
                let pjoined: Vec<u8> = {
                    let mut v = Vec::new();
                    for (i, p) in params.iter().enumerate() {
                        if i > 0 {
                            v.push(b',');
                        }
                        match p {
                            Some(b) => v.extend_from_slice(b),
                            None => v.extend_from_slice(b"NULL"),
                        }
                    }
                    v
                };
                let padv = vec![b'p'; pad];
                let pid = self.pid.to_string();
                let (start, count, suspended) = match portal {
                    None => {
                        out.push(proto::row_description(&ROW_COLS));
                        (0usize, total, false)
                    }
                    Some((pname, max)) => {
                        let p = self.portals.get_mut(pname).unwrap();
                        let start = p.rows_sent;
                        let remaining = p.rows_total.saturating_sub(p.rows_sent);
                        let count = if max > 0 { remaining.min(max as usize) } else { remaining };
                        p.rows_sent += count;
                        let suspended = max > 0 && p.rows_sent < p.rows_total;
                        (start, count, suspended)
                    }
                };
                let fail_after = sqlmini::directive(sql, "sim_error_after").map(|k| k as usize);
                for i in start..start + count {
                    if fail_after == Some(i) {
                        return Err(("XX000".into(), format!("sim_error_after {} rows {}", i, tag)));
                    }
                    let n = i.to_string();
                    out.push(proto::data_row(&[tag.as_bytes(), pid.as_bytes(), n.as_bytes(), &pjoined, &padv]));
                }
                if suspended {
                    out.push(proto::portal_suspended());
                    Ok("SUSPENDED".into())
                } else {
                    let done = match portal {
                        None => total,
                        Some((pname, _)) => self.portals.get(pname).map(|p| p.rows_sent).unwrap_or(count),
                    };
                    let t = format!("SELECT {}", done);
                    out.push(proto::command_complete(&t));
                    Ok(t)
                }
            }
            Kind::Dml => {
                let t = match kw(0) {
                    "INSERT" => "INSERT 0 1".to_string(),
                    other => format!("{} 1", other),
                };
                out.push(proto::command_complete(&t));
                Ok(t)
            }
            Kind::Utility => {
                let t = match kw(0) {
                    "CREATE" | "DROP" | "ALTER" => format!("{} {}", kw(0), kw(1)),
                    other => other.to_string(),
                };
                out.push(proto::command_complete(&t));
                Ok(t)
            }
        }
    }

    fn exec_set(&mut self, sql: &str, out: &mut Vec<Msg>) -> Result<String, (String, String)> {
        let body = strip_stmt(sql);
        let mut rest = body[3..].trim_start();
        let mut local = false;
        let up = rest.to_ascii_uppercase();
        if up.starts_with("LOCAL ") {
            local = true;
            rest = rest[6..].trim_start();
        } else if up.starts_with("SESSION ") && !up.starts_with("SESSION AUTHORIZATION") && !up.starts_with("SESSION CHARACTERISTICS") {
            rest = rest[8..].trim_start();
        }
        let up = rest.to_ascii_uppercase();
        let (name, value_str): (String, String) = if up.starts_with("TRANSACTION") || up.starts_with("SESSION CHARACTERISTICS") || up.starts_with("CONSTRAINTS") {
            out.push(proto::command_complete("SET"));
            return Ok("SET".into());
        } else if up.starts_with("TIME ZONE") {
            ("timezone".into(), rest[9..].trim().to_string())
        } else if up.starts_with("NAMES") {
            ("client_encoding".into(), rest[5..].trim().to_string())
        } else if up.starts_with("ROLE") && up[4..].starts_with(|c: char| c.is_whitespace()) {
            ("role".into(), rest[4..].trim().to_string())
        } else if up.starts_with("SESSION AUTHORIZATION") {
            ("session_authorization".into(), rest[21..].trim().to_string())
        } else {
            let name_end = rest.find(|c: char| c.is_whitespace() || c == '=').unwrap_or(rest.len());
            let name = rest[..name_end].to_ascii_lowercase();
            let mut after = rest[name_end..].trim_start();
            if let Some(stripped) = after.strip_prefix('=') {
                after = stripped.trim_start();
            } else if after.to_ascii_uppercase().starts_with("TO") && after[2..].starts_with(|c: char| c.is_whitespace() || c == '\'') {
                after = after[2..].trim_start();
            } else {
                return Err(("42601".into(), "syntax error in SET".into()));
            }
            (name, after.to_string())
        };
        let vs = value_str.trim().trim_end_matches(';').trim();
        let value: Option<String> = if vs.eq_ignore_ascii_case("DEFAULT") {
            None
        } else if vs.starts_with('\'') {
            match sqlmini::parse_quoted(vs) {
                Some((v, tail)) if tail.trim().is_empty() => Some(v),
                Some((v, tail)) => Some(format!("{}{}", v, tail)), // lists: 'a', 'b'
                None => return Err(("42601".into(), "unterminated quoted string".into())),
            }
        } else if vs.is_empty() {
            return Err(("42601".into(), "syntax error in SET".into()));
        } else {
            Some(vs.trim_matches('"').to_string())
        };
        if name == "session_authorization" {
            out.push(proto::command_complete("SET"));
            return Ok("SET".into());
        }
        if !self.defaults.contains_key(&name) && !name.contains('.') {
            return Err(("42704".into(), format!("unrecognized configuration parameter \"{}\"", name)));
        }
        match value {
            None => {
                if local {
                    self.local.remove(&name);
                } else {
                    self.session.remove(&name);
                    self.local.remove(&name);
                }
            }
            Some(v) => {
                if !validate_guc(&name, &v) {
                    return Err(("22023".into(), format!("invalid value for parameter \"{}\": \"{}\"", name, v)));
                }
                if local {
                    if self.txn == b'I' {
                        out.push(proto::notice_response("WARNING", "25P01", "SET LOCAL can only be used in transaction blocks"));
                    } else {
                        self.local.insert(name, v);
                    }
                } else {
                    self.local.remove(&name);
                    self.session.insert(name, v);
                }
            }
        }
        out.push(proto::command_complete("SET"));
        Ok("SET".into())
    }
}

pub const ROW_COLS: [&str; 5] = ["tag", "backend", "n", "params", "pad"];

#[derive(Clone, Copy, Debug, PartialEq, Eq)]
pub enum Kind {
    Select,
    Dml,
    Utility,
    Begin,
    Commit,
    Rollback,
    RollbackTo,
    Savepoint,
    Release,
    Set,
    Reset,
    Show,
    Discard,
    Prepare,
    ExecuteSql,
    Deallocate,
    Copy,
    Unknown,
}

fn strip_stmt(sql: &str) -> String {
    let s = sqlmini::strip_comments(sql);
    s.trim().trim_start_matches('(').trim().to_string()
}

pub fn classify(sql: &str) -> Kind {
    let kws = sqlmini::keywords(sql, 3);
    let k0 = kws.first().map(|s| s.as_str()).unwrap_or("");
    let k1 = kws.get(1).map(|s| s.as_str()).unwrap_or("");
    match k0 {
        "SELECT" | "WITH" | "VALUES" | "TABLE" => Kind::Select,
        "INSERT" | "UPDATE" | "DELETE" | "MERGE" => Kind::Dml,
        "BEGIN" => Kind::Begin,
        "START" if k1 == "TRANSACTION" => Kind::Begin,
        "COMMIT" | "END" => Kind::Commit,
        "ROLLBACK" | "ABORT" => {
            if k1 == "TO" {
                Kind::RollbackTo
            } else {
                Kind::Rollback
            }
        }
        "SAVEPOINT" => Kind::Savepoint,
        "RELEASE" => Kind::Release,
        "SET" => Kind::Set,
        "RESET" => Kind::Reset,
        "SHOW" => Kind::Show,
        "DISCARD" => Kind::Discard,
        "PREPARE" => {
            if k1 == "TRANSACTION" {
                Kind::Utility
            } else {
                Kind::Prepare
            }
        }
        "EXECUTE" => Kind::ExecuteSql,
        "DEALLOCATE" => Kind::Deallocate,
        "COPY" => Kind::Copy,
        "CREATE" | "DROP" | "ALTER" | "TRUNCATE" | "GRANT" | "REVOKE" | "COMMENT" | "ANALYZE" | "VACUUM" | "LOCK" | "REFRESH" | "REINDEX" | "CLUSTER" | "EXPLAIN" | "LISTEN" | "NOTIFY" | "UNLISTEN" | "CALL" | "DO" | "CHECKPOINT" | "FETCH" | "MOVE" | "DECLARE" | "CLOSE" | "SECURITY" | "IMPORT" | "LOAD" => Kind::Utility,
        _ => Kind::Unknown,
    }
}

/// `SELECT ... user_lookup('<user>')` / `... pg_shadow WHERE usename='<user>'`
fn auth_lookup_user(sql: &str) -> Option<String> {
    let low = sql.to_ascii_lowercase();
    let pos = low.find("user_lookup(").map(|p| p + "user_lookup(".len()).or_else(|| low.find("usename").and_then(|p| low[p..].find('\'').map(|q| p + q)))?;
    let rest = &sql[pos..];
    let q = rest.find('\'')?;
    let (v, _) = sqlmini::parse_quoted(&rest[q..])?;
    Some(v)
}
