//! A very small SQL lexer: statement splitting that respects quotes and comments, tag and
//! directive extraction. This is all the mock backend "understands" about SQL text.

#[derive(Clone, Copy, Debug, PartialEq, Eq, PartialOrd, Ord, Hash)]
pub struct Tag {
    pub c: u32,
    pub t: u32,
    pub s: u32,
}

impl std::fmt::Display for Tag {
    fn fmt(&self, f: &mut std::fmt::Formatter<'_>) -> std::fmt::Result {
        write!(f, "c{}.t{}.s{}", self.c, self.t, self.s)
    }
}

/// All tags `c<d>.t<d>.s<d>` occurring in a byte string.
pub fn find_tags(b: &[u8]) -> Vec<Tag> {
    let mut out = Vec::new();
    let n = b.len();
    let mut i = 0;
    while i < n {
        if b[i] == b'c' && (i == 0 || !b[i - 1].is_ascii_alphanumeric()) {
            let mut j = i + 1;
            let (c, j2) = num(b, j);
            j = j2;
            if c.is_some() && j + 1 < n && b[j] == b'.' && b[j + 1] == b't' {
                let (t, j3) = num(b, j + 2);
                if t.is_some() && j3 + 1 < n && b[j3] == b'.' && b[j3 + 1] == b's' {
                    let (s, j4) = num(b, j3 + 2);
                    if let Some(s) = s {
                        out.push(Tag { c: c.unwrap(), t: t.unwrap(), s });
                        i = j4;
                        continue;
                    }
                }
            }
        }
        i += 1;
    }
    out
}

fn num(b: &[u8], mut i: usize) -> (Option<u32>, usize) {
    let start = i;
    let mut v: u64 = 0;
    while i < b.len() && b[i].is_ascii_digit() && i - start < 9 {
        v = v * 10 + (b[i] - b'0') as u64;
        i += 1;
    }
    if i == start {
        (None, i)
    } else {
        (Some(v as u32), i)
    }
}

/// Value of directive `name(<int>)` in the text, if present.
pub fn directive(sql: &str, name: &str) -> Option<u64> {
    let pat = format!("{}(", name);
    let i = sql.find(&pat)?;
    let rest = &sql[i + pat.len()..];
    let end = rest.find(')')?;
    let inner = rest[..end].trim();
    if inner.is_empty() {
        return Some(0);
    }
    inner.parse::<u64>().ok().or(Some(0))
}

pub fn has_directive(sql: &str, name: &str) -> bool {
    sql.contains(&format!("{}(", name))
}

#[derive(Debug, PartialEq, Eq)]
pub enum LexError {
    UnterminatedString,
    UnterminatedIdent,
    UnterminatedComment,
}

/// Split a simple-Query string into statements at top-level semicolons. Quotes ('' and ""),
/// dollar quotes ($$..$$), line and block comments are respected. An unterminated quote is an
/// error for the whole string (PostgreSQL's raw parser rejects the whole message).
pub fn split_statements(sql: &str) -> Result<Vec<String>, LexError> {
    let b = sql.as_bytes();
    let n = b.len();
    let mut out = Vec::new();
    let mut cur_start = 0;
    let mut i = 0;
    while i < n {
        match b[i] {
            b'\'' => {
                i += 1;
                loop {
                    if i >= n {
                        return Err(LexError::UnterminatedString);
                    }
                    if b[i] == b'\'' {
                        if i + 1 < n && b[i + 1] == b'\'' {
                            i += 2;
                            continue;
                        }
                        i += 1;
                        break;
                    }
                    i += 1;
                }
            }
            b'"' => {
                i += 1;
                loop {
                    if i >= n {
                        return Err(LexError::UnterminatedIdent);
                    }
                    if b[i] == b'"' {
                        if i + 1 < n && b[i + 1] == b'"' {
                            i += 2;
                            continue;
                        }
                        i += 1;
                        break;
                    }
                    i += 1;
                }
            }
            b'-' if i + 1 < n && b[i + 1] == b'-' => {
                while i < n && b[i] != b'\n' {
                    i += 1;
                }
            }
            b'/' if i + 1 < n && b[i + 1] == b'*' => {
                let mut depth = 1;
                i += 2;
                while depth > 0 {
                    if i + 1 >= n {
                        return Err(LexError::UnterminatedComment);
                    }
                    if b[i] == b'*' && b[i + 1] == b'/' {
                        depth -= 1;
                        i += 2;
                    } else if b[i] == b'/' && b[i + 1] == b'*' {
                        depth += 1;
                        i += 2;
                    } else {
                        i += 1;
                    }
                }
            }
            b'$' if i + 1 < n && b[i + 1] == b'$' => {
                i += 2;
                loop {
                    if i + 1 >= n {
                        return Err(LexError::UnterminatedString);
                    }
                    if b[i] == b'$' && b[i + 1] == b'$' {
                        i += 2;
                        break;
                    }
                    i += 1;
                }
            }
            b';' => {
                let s = sql[cur_start..i].trim();
                if !strip_comments(s).trim().is_empty() {
                    out.push(s.to_string());
                }
                i += 1;
                cur_start = i;
            }
            _ => i += 1,
        }
    }
    let s = sql[cur_start..].trim();
    if !strip_comments(s).trim().is_empty() {
        out.push(s.to_string());
    }
    Ok(out)
}

/// Remove comments (outside quotes). Input is assumed lexically valid.
pub fn strip_comments(sql: &str) -> String {
    let b = sql.as_bytes();
    let n = b.len();
    let mut out = Vec::with_capacity(n);
    let mut i = 0;
    while i < n {
        match b[i] {
            b'\'' | b'"' => {
                let q = b[i];
                out.push(q);
                i += 1;
                while i < n {
                    out.push(b[i]);
                    if b[i] == q {
                        if i + 1 < n && b[i + 1] == q {
                            out.push(q);
                            i += 2;
                            continue;
                        }
                        i += 1;
                        break;
                    }
                    i += 1;
                }
            }
            b'-' if i + 1 < n && b[i + 1] == b'-' => {
                while i < n && b[i] != b'\n' {
                    i += 1;
                }
            }
            b'/' if i + 1 < n && b[i + 1] == b'*' => {
                let mut depth = 1;
                i += 2;
                while depth > 0 && i < n {
                    if i + 1 < n && b[i] == b'*' && b[i + 1] == b'/' {
                        depth -= 1;
                        i += 2;
                    } else if i + 1 < n && b[i] == b'/' && b[i + 1] == b'*' {
                        depth += 1;
                        i += 2;
                    } else {
                        i += 1;
                    }
                }
                out.push(b' ');
            }
            c => {
                out.push(c);
                i += 1;
            }
        }
    }
    String::from_utf8_lossy(&out).to_string()
}

/// Upper-cased leading keywords (up to `k`) of a statement, comments and leading parens skipped.
pub fn keywords(stmt: &str, k: usize) -> Vec<String> {
    let s = strip_comments(stmt);
    let mut out = Vec::new();
    let mut cur = String::new();
    for ch in s.chars() {
        if ch.is_ascii_alphanumeric() || ch == '_' {
            cur.push(ch.to_ascii_uppercase());
        } else {
            if !cur.is_empty() {
                out.push(std::mem::take(&mut cur));
                if out.len() == k {
                    return out;
                }
            }
            if !(ch.is_whitespace() || ch == '(') && out.is_empty() {
                // statement starts with something that is not a keyword
                return out;
            }
            if !(ch.is_whitespace() || ch == '(') {
                // punctuation ends the keyword run
                return out;
            }
        }
    }
    if !cur.is_empty() {
        out.push(cur);
    }
    out
}

/// Highest `$n` placeholder in the statement (outside quotes).
pub fn max_placeholder(stmt: &str) -> usize {
    let s = strip_comments(stmt);
    let b = s.as_bytes();
    let mut i = 0;
    let mut max = 0usize;
    let mut in_q: Option<u8> = None;
    while i < b.len() {
        if let Some(q) = in_q {
            if b[i] == q {
                in_q = None;
            }
            i += 1;
            continue;
        }
        match b[i] {
            b'\'' | b'"' => {
                in_q = Some(b[i]);
                i += 1;
            }
            b'$' => {
                let (v, j) = num(b, i + 1);
                if let Some(v) = v {
                    max = max.max(v as usize);
                }
                i = j.max(i + 1);
            }
            _ => i += 1,
        }
    }
    max
}

/// Parse a single-quoted SQL string literal starting at the first quote of `s`.
/// Returns (value, rest after the closing quote).
pub fn parse_quoted(s: &str) -> Option<(String, &str)> {
    let b = s.as_bytes();
    if b.is_empty() || b[0] != b'\'' {
        return None;
    }
    let mut out = Vec::new();
    let mut i = 1;
    while i < b.len() {
        if b[i] == b'\'' {
            if i + 1 < b.len() && b[i + 1] == b'\'' {
                out.push(b'\'');
                i += 2;
                continue;
            }
            return Some((String::from_utf8_lossy(&out).to_string(), &s[i + 1..]));
        }
        out.push(b[i]);
        i += 1;
    }
    None
}
