//! Child process: one spec -> one execution -> one verdict (JSON on stdout).

use crate::spec::{Action, ActionSpec, Spec, Verdict, When};
use crate::world::{self, Behaviour, HIST};
use std::io::{Read, Write};
use std::time::Duration;

static SPEC: once_cell::sync::OnceCell<Spec> = once_cell::sync::OnceCell::new();

pub fn spec() -> &'static Spec {
    SPEC.get().expect("spec")
}

pub fn child_main() -> ! {
    let mut input = String::new();
    std::io::stdin().read_to_string(&mut input).expect("read spec");
    let spec: Spec = match serde_json::from_str(&input) {
        Ok(s) => s,
        Err(e) => {
            eprintln!("bad spec: {}", e);
            std::process::exit(3);
        }
    };
    run_spec(spec)
}

pub fn run_spec(spec: Spec) -> ! {
    // real-time watchdog: a run that spins without awaiting is killed (harness error)
    unsafe {
        libc::alarm(60);
    }
    let seed = spec.seed;
    if let Some(mb) = spec.params.get("mem_limit_mb").and_then(|v| v.as_u64()) {
        crate::memlimit::set_limit((mb as usize) << 20);
    }
    crate::entropy::seed(seed);
    simcore::rt::init(seed);
    simcore::log::keep_lines(spec.trace);
    simcore::log::echo(std::env::var("SIMH_ECHO").is_ok());
    let seg = match spec.net.seg.as_str() {
        "mixed" => simcore::net::SegLaw::Mixed,
        "dribble" => simcore::net::SegLaw::Dribble,
        _ => simcore::net::SegLaw::Whole,
    };
    simcore::net::configure(simcore::net::NetCfg {
        latency_ms: spec.net.latency_ms,
        jitter_ms: spec.net.jitter_ms,
        sndbuf: spec.net.sndbuf.max(16),
        seg,
        short_reads: spec.net.short_reads,
        chaos: spec.net.chaos,
        connect_hang_ms: 127_000,
    });
    for (name, turns) in &spec.yield_sites {
        simcore::yields::enable(name, *turns);
    }
    simcore::fs::set("/sim/pgcat.toml", simcore::fs::Content::Data(spec.config_toml.clone().into_bytes()));
    std::env::set_var("CONFIG_FILE", "/sim/pgcat.toml");
    if std::env::var("SIMH_LOG").is_err() {
        std::env::set_var("LOG_LEVEL", "error");
        std::env::set_var("RUST_LOG", "off");
    } else {
        std::env::set_var("LOG_LEVEL", std::env::var("SIMH_LOG").unwrap());
    }
    std::env::set_var("NO_COLOR", "true");
    let _ = SPEC.set(spec);

    std::panic::set_hook(Box::new(|info| {
        let msg = format!("{}", info);
        let seq = simcore::log::world(|| format!("panic {}", msg.replace('\n', " ")));
        if let Some(mut h) = HIST.try_lock() {
            h.panics.push(format!("seq={} {}", seq, msg.replace('\n', " | ")));
        }
    }));

    simcore::rt::set_world_start(Box::new(|| {
        start_world();
    }));

    // a panic of PgCat's main task would take the real process down: record it as the end of
    // the pooler and let the director finish the run
    let r = std::panic::catch_unwind(std::panic::AssertUnwindSafe(crate::pgcat_main::verif_main));
    if r.is_err() {
        simcore::rt::main_panicked();
    }
    // PgCat's main returned (shutdown). The director finishes the run.
    simcore::rt::run_forever();
}

fn start_world() {
    let spec = spec();
    for (i, h) in spec.hosts.iter().enumerate() {
        crate::mockpg::start_host(h.clone(), i);
    }
    for c in &spec.clients {
        let c = c.clone();
        tokio::spawn(async move {
            if c.phase == "final" {
                world::wait("main_done").await;
            }
            crate::sclient::run_client(c).await;
        });
    }
    for a in &spec.actions {
        let a = a.clone();
        tokio::spawn(async move {
            run_action(a).await;
        });
    }
    // ban-list sampler
    tokio::spawn(async move {
        loop {
            let b = crate::pgcat_api::banned_hosts();
            world::record_bans(&b);
            tokio::time::sleep(Duration::from_millis(5)).await;
        }
    });
    tokio::spawn(director());
}

async fn run_action(a: ActionSpec) {
    match &a.at {
        When::AtMs { ms } => tokio::time::sleep(Duration::from_millis(*ms)).await,
        When::After { ev, delay_ms } => {
            world::wait(ev).await;
            if *delay_ms > 0 {
                tokio::time::sleep(Duration::from_millis(*delay_ms)).await;
            }
        }
    }
    let seq = simcore::log::world(|| format!("action {:?}", a.act));
    HIST.lock().actions.push((seq, simcore::clock::now_us(), serde_json::to_string(&a.act).unwrap_or_default()));
    match &a.act {
        Action::HostMode { host, mode } => {
            let m = match mode.as_str() {
                "refuse" => simcore::net::HostMode::Refuse,
                "hang" => simcore::net::HostMode::Hang,
                _ => simcore::net::HostMode::Up,
            };
            world::fault(&format!("host_mode_{}", mode));
            simcore::net::world::set_host_mode(host, m);
        }
        Action::HostBehaviour { host, b } => {
            let beh = if b == "silent" {
                Behaviour::Silent
            } else if b == "reject_startup" {
                Behaviour::RejectStartup
            } else if b == "errors" {
                Behaviour::Errors
            } else if let Some(ms) = b.strip_prefix("slow:") {
                Behaviour::Slow(ms.parse().unwrap_or(100))
            } else {
                Behaviour::Normal
            };
            world::fault(&format!("host_behaviour_{}", b.split(':').next().unwrap_or("")));
            crate::mockpg::set_behaviour(host, beh);
        }
        Action::KillConns { host, how } => {
            world::fault("kill_conns");
            crate::mockpg::kill_conns(host, how == "rst");
        }
        Action::Signal { sig } => {
            let k = match sig.as_str() {
                "INT" => simcore::signal::SignalKind::interrupt(),
                "TERM" => simcore::signal::SignalKind::terminate(),
                _ => simcore::signal::SignalKind::hangup(),
            };
            world::fault(&format!("signal_{}", sig));
            simcore::signal::raise(k);
        }
        Action::SetFile { kind, content } => {
            let c = match kind.as_str() {
                "missing" => simcore::fs::Content::Missing,
                "readerror" => simcore::fs::Content::ReadError(content.clone().into_bytes()),
                _ => simcore::fs::Content::Data(content.clone().into_bytes()),
            };
            world::fault(&format!("file_{}", kind));
            simcore::fs::set("/sim/pgcat.toml", c);
        }
        Action::Emit { ev } => {
            world::emit(ev);
        }
        Action::SetShadow { host, user, password } => {
            crate::mockpg::set_shadow(host, user, password);
        }
        Action::SetHostUser { host, user, password } => {
            if let Some(h) = world::HOSTS.lock().get_mut(host) {
                h.spec.users.insert(user.clone(), password.clone());
            }
        }
    }
    world::emit(&format!("action.{}.done", seq));
}

async fn wait_clients(phase: &str, deadline: tokio::time::Instant) -> bool {
    let ids: Vec<u32> = spec().clients.iter().filter(|c| c.phase == phase).map(|c| c.id).collect();
    for id in ids {
        let name = format!("c{}.done", id);
        if tokio::time::timeout_at(deadline, world::wait(&name)).await.is_err() {
            return false;
        }
    }
    true
}

async fn director() {
    let spec = spec();
    let start = tokio::time::Instant::now();
    let deadline = start + Duration::from_millis(spec.end.deadline_ms);
    let main_ok = wait_clients("main", deadline).await;
    if main_ok {
        tokio::time::sleep(Duration::from_millis(spec.end.calm_ms)).await;
    }
    world::emit("main_done");
    let final_deadline = tokio::time::Instant::now() + Duration::from_millis(spec.end.deadline_ms);
    let final_ok = wait_clients("final", final_deadline).await;
    // let in-flight closes settle
    tokio::time::sleep(Duration::from_millis(50)).await;
    world::emit("run_end");
    finish(main_ok && final_ok);
}

pub fn finish(completed: bool) -> ! {
    let spec = spec();
    let mut verdict = Verdict::default();
    {
        let mut h = HIST.lock();
        verdict.panics = h.panics.clone();
        let ns = simcore::net::stats();
        for (k, v) in [
            ("net_refused", ns.refused),
            ("net_connect_hang", ns.connect_hangs),
            ("net_reset_seen", ns.resets),
            ("net_broken_pipe", ns.broken_pipe_writes),
            ("net_backpressure_block", ns.backpressure_blocks),
            ("net_short_read", ns.short_reads),
            ("net_chaos_yield", ns.chaos_yields),
            ("net_stall", ns.stalls),
        ] {
            if v > 0 {
                *h.faults.entry(k.to_string()).or_insert(0) += v;
            }
        }
        for (k, v) in simcore::yields::hits() {
            *h.probes.entry(format!("yield:{}", k)).or_insert(0) += v;
        }
        if ns.split_reads > 0 {
            *h.probes.entry("net_split_read".into()).or_insert(0) += ns.split_reads;
        }
        verdict.info.insert("net_bytes".into(), serde_json::json!(ns.bytes_written));
        verdict.info.insert("net_segments".into(), serde_json::json!(ns.segments));
        verdict.info.insert("completed".into(), serde_json::json!(completed));
    }
    let violations = crate::oracles::evaluate(spec, completed);
    let h = HIST.lock();
    verdict.violations = violations;
    verdict.probes = h.probes.clone();
    verdict.faults = h.faults.clone();
    verdict.signature = format!("{:016x}", simcore::log::signature());
    verdict.digest = format!("{:016x}", simcore::log::digest());
    verdict.states = h.state_hashes.len() as u64;
    verdict.sim_us = simcore::clock::now_us();
    verdict.events = simcore::log::events();
    verdict.main_exit_us = simcore::rt::pgcat_exit().map(|(_, us)| us);
    verdict.summary = crate::oracles::summary(&h);
    if spec.trace {
        verdict.trace = simcore::log::take_lines();
    }
    drop(h);
    let out = serde_json::to_string(&verdict).unwrap();
    let stdout = std::io::stdout();
    let mut lock = stdout.lock();
    let _ = lock.write_all(out.as_bytes());
    let _ = lock.write_all(b"\n");
    let _ = lock.flush();
    std::process::exit(0);
}
