//! Scripted PostgreSQL clients (workers, canaries, attackers, admin console users, probes,
//! cancellers). A client is a program; everything it sends and receives is recorded byte for
//! byte with global event sequence numbers.

use crate::proto::{self, Framer, Msg};
use crate::spec::{ClientSpec, FrontMsg, Step, When};
use crate::sqlmini;
use crate::world::{self, ClientRec, StepOutcome, StepRec, HIST};
use simcore::net::TcpStream;
use simcore::rng::Rng;
use std::time::Duration;
use tokio::io::{AsyncReadExt, AsyncWriteExt};

pub fn encode(m: &FrontMsg) -> Vec<u8> {
    match m {
        FrontMsg::Q { sql } => proto::query(sql).bytes(),
        FrontMsg::P { name, sql, types } => proto::parse(name, sql, types).bytes(),
        FrontMsg::B { portal, stmt, fmt, params, rfmt, binary_hex } => {
            let ps: Vec<Option<Vec<u8>>> = params.iter().map(|p| p.as_ref().map(|s| if *binary_hex { proto::unhex(s) } else { s.as_bytes().to_vec() })).collect();
            proto::bind(portal, stmt, fmt, &ps, rfmt).bytes()
        }
        FrontMsg::D { kind, name } => proto::describe(kind.as_bytes().first().cloned().unwrap_or(b'S'), name).bytes(),
        FrontMsg::E { portal, max } => proto::execute(portal, *max).bytes(),
        FrontMsg::C { kind, name } => proto::close(kind.as_bytes().first().cloned().unwrap_or(b'S'), name).bytes(),
        FrontMsg::S => proto::sync().bytes(),
        FrontMsg::H => proto::flush().bytes(),
        FrontMsg::X => proto::terminate().bytes(),
        FrontMsg::CopyData { len } => proto::copy_data(&vec![b'z'; *len]).bytes(),
        FrontMsg::CopyDone => proto::copy_done().bytes(),
        FrontMsg::CopyFail { msg } => proto::copy_fail(msg).bytes(),
        FrontMsg::Raw { hex } => proto::unhex(hex),
    }
}

pub fn expected_rfq(msgs: &[FrontMsg]) -> usize {
    msgs.iter().filter(|m| matches!(m, FrontMsg::Q { .. } | FrontMsg::S)).count()
}

async fn start_delay(w: &When) {
    match w {
        When::AtMs { ms } => {
            if *ms > 0 {
                tokio::time::sleep(Duration::from_millis(*ms)).await;
            }
        }
        When::After { ev, delay_ms } => {
            world::wait(ev).await;
            if *delay_ms > 0 {
                tokio::time::sleep(Duration::from_millis(*delay_ms)).await;
            }
        }
    }
}

enum ReadEnd {
    Msg(Msg),
    Closed(&'static str),
    Timeout,
}

/// The socket is kept split so that a request can be written while replies are being read
/// (a client that writes a large pipelined request without reading deadlocks against any
/// server once both socket buffers are full; real drivers read while they write).
struct Halves {
    r: tokio::io::ReadHalf<Stream>,
    w: tokio::io::WriteHalf<Stream>,
}

/// The client's end of the connection: the simulated socket itself, or TLS over it.
pub enum Stream {
    Plain(TcpStream),
    Tls(Box<tokio_rustls::client::TlsStream<TcpStream>>),
}

impl Stream {
    fn set_abort_on_drop(&mut self, on: bool) {
        match self {
            Stream::Plain(s) => s.set_abort_on_drop(on),
            Stream::Tls(t) => t.get_mut().0.set_abort_on_drop(on),
        }
    }
}

impl tokio::io::AsyncRead for Stream {
    fn poll_read(self: std::pin::Pin<&mut Self>, cx: &mut std::task::Context<'_>, buf: &mut tokio::io::ReadBuf<'_>) -> std::task::Poll<std::io::Result<()>> {
        match self.get_mut() {
            Stream::Plain(s) => std::pin::Pin::new(s).poll_read(cx, buf),
            Stream::Tls(t) => std::pin::Pin::new(t.as_mut()).poll_read(cx, buf),
        }
    }
}

impl tokio::io::AsyncWrite for Stream {
    fn poll_write(self: std::pin::Pin<&mut Self>, cx: &mut std::task::Context<'_>, buf: &[u8]) -> std::task::Poll<std::io::Result<usize>> {
        match self.get_mut() {
            Stream::Plain(s) => std::pin::Pin::new(s).poll_write(cx, buf),
            Stream::Tls(t) => std::pin::Pin::new(t.as_mut()).poll_write(cx, buf),
        }
    }
    fn poll_flush(self: std::pin::Pin<&mut Self>, cx: &mut std::task::Context<'_>) -> std::task::Poll<std::io::Result<()>> {
        match self.get_mut() {
            Stream::Plain(s) => std::pin::Pin::new(s).poll_flush(cx),
            Stream::Tls(t) => std::pin::Pin::new(t.as_mut()).poll_flush(cx),
        }
    }
    fn poll_shutdown(self: std::pin::Pin<&mut Self>, cx: &mut std::task::Context<'_>) -> std::task::Poll<std::io::Result<()>> {
        match self.get_mut() {
            Stream::Plain(s) => std::pin::Pin::new(s).poll_shutdown(cx),
            Stream::Tls(t) => std::pin::Pin::new(t.as_mut()).poll_shutdown(cx),
        }
    }
}

/// TLS client side: any certificate is accepted (the pooler's test certificate is self-signed).
async fn tls_upgrade(s: TcpStream) -> std::io::Result<Stream> {
    use tokio_rustls::rustls;
    let cfg = rustls::ClientConfig::builder()
        .with_safe_defaults()
        .with_custom_certificate_verifier(std::sync::Arc::new(pgcat::tls::NoCertificateVerification {}))
        .with_no_client_auth();
    let connector = tokio_rustls::TlsConnector::from(std::sync::Arc::new(cfg));
    let name = rustls::ServerName::try_from("pgcat.sim").map_err(|_| std::io::Error::new(std::io::ErrorKind::InvalidInput, "server name"))?;
    let t = connector.connect(name, s).await?;
    Ok(Stream::Tls(Box::new(t)))
}

struct Conn {
    s: Halves,
    f: Framer,
    raw: Vec<u8>,
}

impl Halves {
    fn new(s: Stream) -> Halves {
        let (r, w) = tokio::io::split(s);
        Halves { r, w }
    }
    async fn write_all(&mut self, b: &[u8]) -> std::io::Result<()> {
        self.w.write_all(b).await?;
        // TLS buffers plaintext until flushed; a no-op on the plain socket
        self.w.flush().await
    }
    async fn read(&mut self, b: &mut [u8]) -> std::io::Result<usize> {
        self.r.read(b).await
    }
    async fn read_exact(&mut self, b: &mut [u8]) -> std::io::Result<usize> {
        self.r.read_exact(b).await
    }
    /// Close the connection; with `abort` as a reset.
    fn close(self, abort: bool) {
        let mut s = self.r.unsplit(self.w);
        if abort {
            s.set_abort_on_drop(true);
        }
        drop(s);
    }
}

impl Conn {
    /// Next message, or close/timeout. Every byte read is appended to `raw`.
    async fn next(&mut self, deadline: tokio::time::Instant) -> ReadEnd {
        loop {
            match self.f.next() {
                Ok(Some(m)) => return ReadEnd::Msg(m),
                Ok(None) => {}
                Err(_) => return ReadEnd::Closed("garbage"),
            }
            let mut buf = [0u8; 16384];
            match tokio::time::timeout_at(deadline, self.s.read(&mut buf)).await {
                Err(_) => return ReadEnd::Timeout,
                Ok(Ok(0)) => return ReadEnd::Closed("eof"),
                Ok(Ok(n)) => {
                    self.raw.extend_from_slice(&buf[..n]);
                    self.f.push(&buf[..n]);
                }
                Ok(Err(_)) => return ReadEnd::Closed("reset"),
            }
        }
    }
}

fn finish(id: u32) {
    if world::fired(&format!("c{}.login_done", id)).is_none() {
        world::emit(&format!("c{}.login_done", id));
    }
    let seq = world::emit(&format!("c{}.done", id));
    let mut h = HIST.lock();
    if let Some(c) = h.clients.get_mut(&id) {
        c.finished = true;
        c.finished_seq = seq;
    }
}

fn push_step(id: u32, rec: StepRec) {
    let idx = rec.idx;
    HIST.lock().clients.get_mut(&id).unwrap().steps.push(rec);
    world::emit(&format!("c{}.s{}.done", id, idx));
}

pub async fn run_client(spec: ClientSpec) {
    let id = spec.id;
    HIST.lock().clients.insert(id, ClientRec { id, role: spec.role.clone(), user: spec.user.clone(), database: spec.database.clone(), auth_result: "notrun".into(), ..Default::default() });
    start_delay(&spec.start).await;
    simcore::net::world::wait_pgcat_listening().await;
    let mut rng = Rng::stream(&format!("client/{}", id));
    let patience = Duration::from_millis(spec.patience_ms);

    let connect_seq = simcore::log::world(|| format!("client {} connect", id));
    let s = match simcore::net::world::connect_pgcat().await {
        Ok(s) => s,
        Err(_) => {
            let mut h = HIST.lock();
            let c = h.clients.get_mut(&id).unwrap();
            c.connect_seq = connect_seq;
            c.connect_us = simcore::clock::now_us();
            c.auth_result = "refused".into();
            drop(h);
            finish(id);
            return;
        }
    };
    {
        let mut h = HIST.lock();
        let c = h.clients.get_mut(&id).unwrap();
        c.connect_seq = connect_seq;
        c.connect_us = simcore::clock::now_us();
        c.connected = true;
        c.net_conn = s.conn_id();
    }
    let mut abort_at_end = false;
    // ---- SSLRequest (answered N without a certificate, S and a TLS handshake with one) ----
    let mut s = s;
    let stream: Stream = if spec.ssl_probe || spec.tls {
        let mut b = [0u8; 1];
        let ok = s.write_all(&proto::ssl_request()).await.is_ok() && matches!(tokio::time::timeout(patience, s.read_exact(&mut b)).await, Ok(Ok(_)));
        if !ok {
            HIST.lock().clients.get_mut(&id).unwrap().auth_result = "closed".into();
            finish(id);
            return;
        }
        if b[0] == b'S' && spec.tls {
            match tokio::time::timeout(patience, tls_upgrade(s)).await {
                Ok(Ok(t)) => {
                    world::probe("client_tls_established");
                    t
                }
                _ => {
                    HIST.lock().clients.get_mut(&id).unwrap().auth_result = "closed".into();
                    finish(id);
                    return;
                }
            }
        } else {
            Stream::Plain(s)
        }
    } else {
        Stream::Plain(s)
    };
    let mut conn = Conn { s: Halves::new(stream), f: Framer::default(), raw: Vec::new() };

    // ---- startup ----
    let startup_bytes = match &spec.raw_startup {
        Some(hex) => proto::unhex(hex),
        None => {
            let mut params = vec![("user".to_string(), spec.user.clone()), ("database".to_string(), spec.database.clone())];
            params.extend(spec.startup_params.iter().cloned());
            proto::startup_packet(&params)
        }
    };
    if conn.s.write_all(&startup_bytes).await.is_err() {
        HIST.lock().clients.get_mut(&id).unwrap().auth_result = "closed".into();
        finish(id);
        return;
    }
    let deadline = tokio::time::Instant::now() + patience;
    let mut auth_result = String::from("closed");
    let mut ready = false;
    loop {
        match conn.next(deadline).await {
            ReadEnd::Timeout => {
                if auth_result == "closed" {
                    auth_result = "timeout".into();
                }
                break;
            }
            ReadEnd::Closed(_) => break,
            ReadEnd::Msg(m) => {
                let seq = simcore::log::world(|| format!("client {} startup.recv {}", id, m.ty as char));
                HIST.lock().clients.get_mut(&id).unwrap().startup_msgs.push(m.clone());
                match m.ty {
                    b'R' => {
                        let code = proto::Reader::new(&m.body).i32().unwrap_or(-1);
                        if code == 0 {
                            auth_result = "ok".into();
                            HIST.lock().clients.get_mut(&id).unwrap().auth_ok_seq = Some(seq);
                        } else if code == 5 && m.body.len() >= 8 {
                            let salt = [m.body[4], m.body[5], m.body[6], m.body[7]];
                            HIST.lock().clients.get_mut(&id).unwrap().salt = Some(salt);
                            let pw = spec.password.clone().unwrap_or_default();
                            let correct = proto::md5_password_body(&spec.user, &pw, &salt);
                            let a = spec.auth.as_str();
                            let to_send: Option<Vec<u8>> = if a == "correct" {
                                Some(proto::password(&correct).bytes())
                            } else if a == "wrong" {
                                Some(proto::password(&proto::md5_password_body(&spec.user, &format!("wrong-{}", pw), &salt)).bytes())
                            } else if let Some(other) = a.strip_prefix("replay:") {
                                let oid: u32 = other.parse().unwrap_or(0);
                                let prev = HIST.lock().clients.get(&oid).and_then(|c| c.password_sent.clone());
                                Some(proto::password(&prev.unwrap_or_else(|| b"md5deadbeefdeadbeefdeadbeefdeadbeef\0".to_vec())).bytes())
                            } else if a == "truncated" {
                                let k = rng.range(0, correct.len() as u64 - 1) as usize;
                                Some(proto::password(&correct[..k]).bytes())
                            } else if a == "oversized" {
                                let mut v = correct.clone();
                                v.extend(std::iter::repeat(b'A').take(rng.range(1, 2000) as usize));
                                Some(proto::password(&v).bytes())
                            } else if a == "hugelen" {
                                // a password message whose declared length asks for 2 GiB
                                let mut v = vec![b'p'];
                                v.extend_from_slice(&crate::gen::security::HUGE_PASSWORD.to_be_bytes());
                                v.extend_from_slice(b"x");
                                Some(v)
                            } else if a == "othermsg" {
                                Some(proto::query("SELECT 'attacker' /* c9999.t0.s0 */").bytes())
                            } else if let Some(hex) = a.strip_prefix("hash:") {
                                Some(proto::password(&proto::md5_password_body_from_hash(hex, &salt)).bytes())
                            } else if a == "eof" {
                                break;
                            } else {
                                None // "none": say nothing
                            };
                            if let Some(b) = to_send {
                                {
                                    let mut h = HIST.lock();
                                    let c = h.clients.get_mut(&id).unwrap();
                                    c.password_msg = Some(b.clone());
                                    if a == "correct" || a.starts_with("hash:") {
                                        c.password_sent = Some(b[5..].to_vec());
                                    }
                                }
                                if conn.s.write_all(&b).await.is_err() {
                                    break;
                                }
                            }
                        } else {
                            auth_result = format!("error:unsupported auth {}", code);
                        }
                    }
                    b'S' => {
                        let mut r = proto::Reader::new(&m.body);
                        let k = r.cstr().unwrap_or_default();
                        let v = r.cstr().unwrap_or_default();
                        HIST.lock().clients.get_mut(&id).unwrap().params.insert(k, v);
                    }
                    b'K' => {
                        let mut r = proto::Reader::new(&m.body);
                        let p = r.i32().unwrap_or(0);
                        let k = r.i32().unwrap_or(0);
                        HIST.lock().clients.get_mut(&id).unwrap().key = Some((p, k));
                    }
                    b'E' => {
                        let f = proto::error_fields(&m.body);
                        auth_result = format!("error:{}", f.get(&'M').cloned().unwrap_or_default());
                    }
                    b'Z' => {
                        ready = true;
                        HIST.lock().clients.get_mut(&id).unwrap().ready_seq = Some(seq);
                        break;
                    }
                    _ => {}
                }
            }
        }
    }
    HIST.lock().clients.get_mut(&id).unwrap().auth_result = auth_result.clone();
    world::emit(&format!("c{}.login_done", id));
    if ready {
        world::emit(&format!("c{}.ready", id));
    } else {
        world::emit(&format!("c{}.authfail", id));
        if spec.role != "attacker" {
            finish(id);
            return;
        }
    }

    // ---- steps ----
    let mut open = true;
    for (idx, step) in spec.steps.iter().enumerate() {
        if !open {
            // the connection is gone: events other actors wait for are still announced
            if let Step::Emit { ev } = step {
                world::emit(ev);
            }
            continue;
        }
        let mut rec = StepRec { client: id, idx, start_seq: simcore::log::world(|| format!("client {} step {} begin", id, idx)), start_us: simcore::clock::now_us(), ..Default::default() };
        match step {
            Step::Think { ms } => {
                rec.op = "think".into();
                tokio::time::sleep(Duration::from_millis(*ms)).await;
                rec.outcome = StepOutcome::Done;
            }
            Step::Wait { ev } => {
                rec.op = "wait".into();
                world::wait(ev).await;
                rec.outcome = StepOutcome::Done;
            }
            Step::Emit { ev } => {
                rec.op = "emit".into();
                world::emit(ev);
                rec.outcome = StepOutcome::Done;
            }
            Step::Terminate => {
                rec.op = "terminate".into();
                let b = proto::terminate().bytes();
                let _ = conn.s.write_all(&b).await;
                rec.sent = b;
                rec.outcome = StepOutcome::Done;
                open = false;
            }
            Step::Drop { abort } => {
                rec.op = "drop".into();
                if *abort {
                    abort_at_end = true;
                }
                rec.outcome = StepOutcome::Cut;
                open = false;
            }
            Step::Hold { until, max_ms } => {
                rec.op = "hold".into();
                let deadline = tokio::time::Instant::now() + Duration::from_millis(*max_ms);
                let start_raw = conn.raw.len();
                loop {
                    let ev_fut = async {
                        match until {
                            Some(ev) => world::wait(ev).await,
                            None => std::future::pending::<()>().await,
                        }
                    };
                    tokio::select! {
                        biased;
                        r = conn.next(deadline) => {
                            match r {
                                ReadEnd::Msg(m) => { rec.msgs.push(m); }
                                ReadEnd::Closed(how) => { rec.outcome = StepOutcome::Closed(how.into()); open = false; break; }
                                ReadEnd::Timeout => { rec.outcome = StepOutcome::Done; break; }
                            }
                        }
                        _ = ev_fut => { rec.outcome = StepOutcome::Done; break; }
                    }
                }
                rec.recv = rec.msgs.iter().flat_map(|m| m.bytes()).collect();
            }
            Step::Raw { hex, read_ms } => {
                rec.op = "raw".into();
                let b = proto::unhex(hex);
                rec.sent = b.clone();
                let w = tokio::time::timeout(patience, conn.s.write_all(&b)).await;
                rec.sent_seq = simcore::log::world(|| format!("client {} step {} sent", id, idx));
                rec.sent_us = simcore::clock::now_us();
                let start_raw = conn.raw.len();
                if !matches!(w, Ok(Ok(()))) {
                    rec.outcome = StepOutcome::Closed("write".into());
                    open = false;
                } else {
                    let deadline = tokio::time::Instant::now() + Duration::from_millis(*read_ms);
                    loop {
                        match conn.next(deadline).await {
                            ReadEnd::Msg(m) => rec.msgs.push(m),
                            ReadEnd::Closed(how) => {
                                rec.outcome = StepOutcome::Closed(how.into());
                                open = false;
                                break;
                            }
                            ReadEnd::Timeout => {
                                rec.outcome = StepOutcome::Done;
                                break;
                            }
                        }
                    }
                }
                rec.recv = rec.msgs.iter().flat_map(|m| m.bytes()).collect();
            }
            Step::Cancel { target, key } => {
                rec.op = "cancel".into();
                let tk = HIST.lock().clients.get(target).and_then(|c| c.key);
                let (pid, k) = match (key.as_str(), tk) {
                    ("target", Some((p, k))) => (p, k),
                    ("wrongsecret", Some((p, k))) => (p, k.wrapping_add(1 + rng.below(1000) as i32)),
                    ("wrongpid", Some((p, k))) => (p.wrapping_add(1 + rng.below(1000) as i32), k),
                    _ => (rng.next_u64() as i32, rng.next_u64() as i32),
                };
                let b = proto::cancel_request(pid, k);
                rec.sent = b.clone();
                match simcore::net::world::connect_pgcat().await {
                    Ok(mut cs) => {
                        let _ = cs.write_all(&b).await;
                        rec.sent_seq = simcore::log::world(|| format!("client {} step {} cancel sent", id, idx));
                        rec.sent_us = simcore::clock::now_us();
                        let mut buf = [0u8; 256];
                        let deadline = tokio::time::Instant::now() + patience;
                        loop {
                            match tokio::time::timeout_at(deadline, cs.read(&mut buf)).await {
                                Ok(Ok(0)) | Ok(Err(_)) | Err(_) => break,
                                Ok(Ok(n)) => rec.recv.extend_from_slice(&buf[..n]),
                            }
                        }
                        rec.outcome = StepOutcome::Done;
                    }
                    Err(_) => rec.outcome = StepOutcome::Closed("refused".into()),
                }
            }
            Step::CopyIn { sql, chunks, fail, drop_after, txn } => {
                rec.op = "copyin".into();
                rec.txn = *txn;
                rec.tags = sqlmini::find_tags(sql.as_bytes());
                let deadline = tokio::time::Instant::now() + patience;
                let start_raw = conn.raw.len();
                let q = proto::query(sql).bytes();
                rec.sent.extend_from_slice(&q);
                let mut ok = conn.s.write_all(&q).await.is_ok();
                let mut got_g = false;
                let mut done = false;
                while ok && !got_g && !done {
                    match conn.next(deadline).await {
                        ReadEnd::Msg(m) => {
                            if m.ty == b'G' {
                                got_g = true;
                            }
                            if m.ty == b'Z' {
                                rec.outcome = StepOutcome::Ready(m.body.first().cloned().unwrap_or(0));
                                done = true;
                            }
                            rec.msgs.push(m);
                        }
                        ReadEnd::Closed(how) => {
                            rec.outcome = StepOutcome::Closed(how.into());
                            open = false;
                            ok = false;
                        }
                        ReadEnd::Timeout => {
                            rec.outcome = StepOutcome::Timeout;
                            open = false;
                            ok = false;
                        }
                    }
                }
                if ok && got_g {
                    let mut dropped = false;
                    for (i, len) in chunks.iter().enumerate() {
                        if Some(i) == *drop_after {
                            dropped = true;
                            break;
                        }
                        let b = proto::copy_data(&vec![b'z'; *len]).bytes();
                        rec.sent.extend_from_slice(&b);
                        if conn.s.write_all(&b).await.is_err() {
                            ok = false;
                            break;
                        }
                    }
                    if dropped || (*drop_after == Some(chunks.len())) {
                        rec.outcome = StepOutcome::Cut;
                        open = false;
                    } else if ok {
                        let b = if *fail { proto::copy_fail("sim client abort").bytes() } else { proto::copy_done().bytes() };
                        rec.sent.extend_from_slice(&b);
                        let _ = conn.s.write_all(&b).await;
                        rec.sent_seq = simcore::log::world(|| format!("client {} step {} sent", id, idx));
                        rec.sent_us = simcore::clock::now_us();
                        loop {
                            match conn.next(deadline).await {
                                ReadEnd::Msg(m) => {
                                    let z = m.ty == b'Z';
                                    let st = m.body.first().cloned().unwrap_or(0);
                                    rec.msgs.push(m);
                                    if z {
                                        rec.outcome = StepOutcome::Ready(st);
                                        break;
                                    }
                                }
                                ReadEnd::Closed(how) => {
                                    rec.outcome = StepOutcome::Closed(how.into());
                                    open = false;
                                    break;
                                }
                                ReadEnd::Timeout => {
                                    rec.outcome = StepOutcome::Timeout;
                                    open = false;
                                    break;
                                }
                            }
                        }
                    } else {
                        rec.outcome = StepOutcome::Closed("write".into());
                        open = false;
                    }
                }
                rec.recv = rec.msgs.iter().flat_map(|m| m.bytes()).collect();
            }
            Step::Send { msgs, rfq, cut, abort, txn } => {
                rec.op = "send".into();
                rec.txn = *txn;
                let mut bytes = Vec::new();
                for m in msgs {
                    bytes.extend(encode(m));
                }
                rec.tags = sqlmini::find_tags(&bytes);
                let start_raw = conn.raw.len();
                if let Some(k) = cut {
                    let k = (*k).min(bytes.len());
                    let _ = tokio::time::timeout(patience, conn.s.write_all(&bytes[..k])).await;
                    rec.sent = bytes[..k].to_vec();
                    rec.sent_seq = simcore::log::world(|| format!("client {} step {} cut at {}", id, idx, k));
                    rec.sent_us = simcore::clock::now_us();
                    if *abort {
                        abort_at_end = true;
                    }
                    world::fault("client_cut");
                    rec.outcome = StepOutcome::Cut;
                    open = false;
                } else {
                    let want = rfq.unwrap_or_else(|| expected_rfq(msgs));
                    let has_x = msgs.iter().any(|m| matches!(m, FrontMsg::X));
                    let deadline = tokio::time::Instant::now() + patience;
                    let mut off = 0usize;
                    let mut seen = 0usize;
                    let mut failed = false;
                    rec.outcome = StepOutcome::NotRun;
                    while off < bytes.len() || seen < want {
                        let Conn { s: halves, f, raw } = &mut conn;
                        let mut rbuf = [0u8; 16384];
                        // drain already-framed messages first
                        let mut progressed = false;
                        loop {
                            match f.next() {
                                Ok(Some(m)) => {
                                    progressed = true;
                                    let z = m.ty == b'Z';
                                    let st = m.body.first().cloned().unwrap_or(0);
                                    rec.msgs.push(m);
                                    if z {
                                        seen += 1;
                                        if seen == want {
                                            rec.outcome = StepOutcome::Ready(st);
                                        }
                                    }
                                    if seen >= want && want > 0 {
                                        break;
                                    }
                                }
                                Ok(None) => break,
                                Err(_) => {
                                    rec.outcome = StepOutcome::Closed("garbage".into());
                                    failed = true;
                                    break;
                                }
                            }
                        }
                        if failed || (off >= bytes.len() && seen >= want) {
                            break;
                        }
                        if progressed {
                            continue;
                        }
                        tokio::select! {
                            biased;
                            w = halves.w.write(&bytes[off..]), if off < bytes.len() => {
                                match w {
                                    Ok(0) | Err(_) => { rec.outcome = StepOutcome::Closed("write".into()); failed = true; }
                                    Ok(n) => {
                                        off += n;
                                        if off == bytes.len() {
                                            // TLS: push the last records out (no-op on the plain socket)
                                            let _ = halves.w.flush().await;
                                            rec.sent_seq = simcore::log::world(|| format!("client {} step {} sent", id, idx));
                                            rec.sent_us = simcore::clock::now_us();
                                            world::emit(&format!("c{}.s{}.sent", id, idx));
                                        }
                                    }
                                }
                            }
                            r = tokio::time::timeout_at(deadline, halves.r.read(&mut rbuf)), if want > 0 || off < bytes.len() => {
                                match r {
                                    Err(_) => { rec.outcome = StepOutcome::Timeout; failed = true; }
                                    Ok(Ok(0)) => { rec.outcome = StepOutcome::Closed("eof".into()); failed = true; }
                                    Ok(Ok(n)) => { raw.extend_from_slice(&rbuf[..n]); f.push(&rbuf[..n]); }
                                    Ok(Err(_)) => { rec.outcome = StepOutcome::Closed("reset".into()); failed = true; }
                                }
                            }
                        }
                        if failed {
                            break;
                        }
                    }
                    if failed && rec.outcome == StepOutcome::Closed("write".into()) {
                        // the peer has gone; what it said before leaving is still in the socket
                        let Conn { s: halves, f, raw } = &mut conn;
                        let mut rbuf = [0u8; 16384];
                        loop {
                            match tokio::time::timeout(Duration::from_millis(1), halves.r.read(&mut rbuf)).await {
                                Ok(Ok(n)) if n > 0 => {
                                    raw.extend_from_slice(&rbuf[..n]);
                                    f.push(&rbuf[..n]);
                                }
                                _ => break,
                            }
                        }
                        while let Ok(Some(m)) = f.next() {
                            rec.msgs.push(m);
                        }
                    }
                    rec.sent = bytes;
                    if rec.sent_seq == 0 {
                        rec.sent_seq = simcore::log::world(|| format!("client {} step {} sent (partial {})", id, idx, off));
                        rec.sent_us = simcore::clock::now_us();
                    }
                    if failed {
                        open = false;
                    } else {
                        if want == 0 {
                            rec.outcome = StepOutcome::Done;
                        }
                        if has_x {
                            open = false;
                        }
                    }
                    rec.recv = rec.msgs.iter().flat_map(|m| m.bytes()).collect();
                }
            }
        }
        rec.done_seq = simcore::log::world(|| format!("client {} step {} end {:?} recv {}{}", id, idx, rec.outcome, rec.msgs.iter().map(|m| m.ty as char).collect::<String>(), rec.msgs.iter().filter(|m| m.ty == b'E').map(|m| format!(" E[{}]", String::from_utf8_lossy(&m.body).replace('\0', "|"))).collect::<String>()));
        rec.done_us = simcore::clock::now_us();
        push_step(id, rec);
    }
    conn.s.close(abort_at_end);
    finish(id);
}
