//! PostgreSQL v3 wire helpers written from the protocol documentation (independent of
//! PgCat's messages.rs). Used by the mock backend, the scripted clients and the oracles.

use std::collections::BTreeMap;

pub const PROTO_V3: i32 = 196608;
pub const SSL_REQUEST: i32 = 80877103;
pub const CANCEL_REQUEST: i32 = 80877102;

#[derive(Clone, Debug, PartialEq, Eq)]
pub struct Msg {
    pub ty: u8,
    pub body: Vec<u8>,
}

impl Msg {
    pub fn new(ty: u8, body: Vec<u8>) -> Msg {
        Msg { ty, body }
    }
    pub fn bytes(&self) -> Vec<u8> {
        let mut v = Vec::with_capacity(self.body.len() + 5);
        v.push(self.ty);
        v.extend_from_slice(&((self.body.len() as i32 + 4).to_be_bytes()));
        v.extend_from_slice(&self.body);
        v
    }
    pub fn len_on_wire(&self) -> usize {
        self.body.len() + 5
    }
}

pub fn cstr(v: &mut Vec<u8>, s: &str) {
    v.extend_from_slice(s.as_bytes());
    v.push(0);
}

/// Incremental splitter of a byte stream into typed messages.
#[derive(Default, Clone)]
pub struct Framer {
    pub buf: Vec<u8>,
    /// Validate headers the way PostgreSQL's SocketBackend does as soon as they arrive:
    /// unknown frontend message types and lengths outside the per-type limit end the session
    /// without waiting for the declared number of bytes.
    pub pg_frontend_rules: bool,
}

impl Framer {
    pub fn push(&mut self, data: &[u8]) {
        self.buf.extend_from_slice(data);
    }
    /// Next complete message, if any. Err on an impossible length.
    pub fn next(&mut self) -> Result<Option<Msg>, String> {
        if self.buf.is_empty() {
            return Ok(None);
        }
        if self.pg_frontend_rules && self.buf.is_empty() {
            return Ok(None);
        }
        if self.pg_frontend_rules {
            let large = matches!(self.buf[0], b'Q' | b'F' | b'B' | b'P' | b'd');
            let small = matches!(self.buf[0], b'X' | b'C' | b'D' | b'E' | b'H' | b'S' | b'c' | b'f' | b'p');
            if !large && !small {
                return Err(format!("invalid frontend message type {}", self.buf[0]));
            }
            if self.buf.len() >= 5 {
                let len = i32::from_be_bytes([self.buf[1], self.buf[2], self.buf[3], self.buf[4]]);
                let max = if large { 0x3fff_ffff } else { 10000 };
                if len < 4 || len > max {
                    return Err(format!("invalid message length {} for type {:?}", len, self.buf[0] as char));
                }
            }
        }
        if self.buf.len() < 5 {
            return Ok(None);
        }
        let len = i32::from_be_bytes([self.buf[1], self.buf[2], self.buf[3], self.buf[4]]);
        if len < 4 {
            return Err(format!("bad length {} for type {:?}", len, self.buf[0] as char));
        }
        let total = len as usize + 1;
        if self.buf.len() < total {
            return Ok(None);
        }
        let ty = self.buf[0];
        let body = self.buf[5..total].to_vec();
        self.buf.drain(..total);
        Ok(Some(Msg { ty, body }))
    }
    pub fn pending(&self) -> usize {
        self.buf.len()
    }
}

/// Split a complete byte string into messages (for oracles over recorded streams).
pub fn split_all(data: &[u8]) -> (Vec<Msg>, usize) {
    let mut f = Framer::default();
    f.push(data);
    let mut out = Vec::new();
    loop {
        match f.next() {
            Ok(Some(m)) => out.push(m),
            _ => break,
        }
    }
    (out, f.pending())
}

pub struct Reader<'a> {
    pub b: &'a [u8],
    pub pos: usize,
}

impl<'a> Reader<'a> {
    pub fn new(b: &'a [u8]) -> Reader<'a> {
        Reader { b, pos: 0 }
    }
    pub fn remaining(&self) -> usize {
        self.b.len().saturating_sub(self.pos)
    }
    pub fn u8(&mut self) -> Option<u8> {
        let v = *self.b.get(self.pos)?;
        self.pos += 1;
        Some(v)
    }
    pub fn i16(&mut self) -> Option<i16> {
        if self.remaining() < 2 {
            return None;
        }
        let v = i16::from_be_bytes([self.b[self.pos], self.b[self.pos + 1]]);
        self.pos += 2;
        Some(v)
    }
    pub fn i32(&mut self) -> Option<i32> {
        if self.remaining() < 4 {
            return None;
        }
        let v = i32::from_be_bytes([self.b[self.pos], self.b[self.pos + 1], self.b[self.pos + 2], self.b[self.pos + 3]]);
        self.pos += 4;
        Some(v)
    }
    pub fn cstr(&mut self) -> Option<String> {
        let rest = &self.b[self.pos.min(self.b.len())..];
        let n = rest.iter().position(|c| *c == 0)?;
        let s = String::from_utf8_lossy(&rest[..n]).to_string();
        self.pos += n + 1;
        Some(s)
    }
    pub fn bytes(&mut self, n: usize) -> Option<&'a [u8]> {
        if self.remaining() < n {
            return None;
        }
        let s = &self.b[self.pos..self.pos + n];
        self.pos += n;
        Some(s)
    }
}

// ---------------------------------------------------------------------------------------
// Frontend messages
// ---------------------------------------------------------------------------------------

pub fn startup_packet(params: &[(String, String)]) -> Vec<u8> {
    let mut body = Vec::new();
    body.extend_from_slice(&PROTO_V3.to_be_bytes());
    for (k, v) in params {
        cstr(&mut body, k);
        cstr(&mut body, v);
    }
    body.push(0);
    let mut out = Vec::new();
    out.extend_from_slice(&((body.len() as i32 + 4).to_be_bytes()));
    out.extend_from_slice(&body);
    out
}

pub fn ssl_request() -> Vec<u8> {
    let mut out = Vec::new();
    out.extend_from_slice(&8i32.to_be_bytes());
    out.extend_from_slice(&SSL_REQUEST.to_be_bytes());
    out
}

pub fn cancel_request(pid: i32, key: i32) -> Vec<u8> {
    let mut out = Vec::new();
    out.extend_from_slice(&16i32.to_be_bytes());
    out.extend_from_slice(&CANCEL_REQUEST.to_be_bytes());
    out.extend_from_slice(&pid.to_be_bytes());
    out.extend_from_slice(&key.to_be_bytes());
    out
}

pub fn query(sql: &str) -> Msg {
    let mut b = Vec::new();
    cstr(&mut b, sql);
    Msg::new(b'Q', b)
}

pub fn password(p: &[u8]) -> Msg {
    Msg::new(b'p', p.to_vec())
}

pub fn parse(name: &str, sql: &str, types: &[i32]) -> Msg {
    let mut b = Vec::new();
    cstr(&mut b, name);
    cstr(&mut b, sql);
    b.extend_from_slice(&(types.len() as i16).to_be_bytes());
    for t in types {
        b.extend_from_slice(&t.to_be_bytes());
    }
    Msg::new(b'P', b)
}

/// params: None = NULL. formats: per-parameter format codes (empty = all text).
pub fn bind(portal: &str, stmt: &str, formats: &[i16], params: &[Option<Vec<u8>>], result_formats: &[i16]) -> Msg {
    let mut b = Vec::new();
    cstr(&mut b, portal);
    cstr(&mut b, stmt);
    b.extend_from_slice(&(formats.len() as i16).to_be_bytes());
    for f in formats {
        b.extend_from_slice(&f.to_be_bytes());
    }
    b.extend_from_slice(&(params.len() as i16).to_be_bytes());
    for p in params {
        match p {
            None => b.extend_from_slice(&(-1i32).to_be_bytes()),
            Some(v) => {
                b.extend_from_slice(&(v.len() as i32).to_be_bytes());
                b.extend_from_slice(v);
            }
        }
    }
    b.extend_from_slice(&(result_formats.len() as i16).to_be_bytes());
    for f in result_formats {
        b.extend_from_slice(&f.to_be_bytes());
    }
    Msg::new(b'B', b)
}

pub fn describe(kind: u8, name: &str) -> Msg {
    let mut b = vec![kind];
    cstr(&mut b, name);
    Msg::new(b'D', b)
}

pub fn execute(portal: &str, max_rows: i32) -> Msg {
    let mut b = Vec::new();
    cstr(&mut b, portal);
    b.extend_from_slice(&max_rows.to_be_bytes());
    Msg::new(b'E', b)
}

pub fn close(kind: u8, name: &str) -> Msg {
    let mut b = vec![kind];
    cstr(&mut b, name);
    Msg::new(b'C', b)
}

pub fn sync() -> Msg {
    Msg::new(b'S', vec![])
}
pub fn flush() -> Msg {
    Msg::new(b'H', vec![])
}
pub fn terminate() -> Msg {
    Msg::new(b'X', vec![])
}
pub fn copy_data(d: &[u8]) -> Msg {
    Msg::new(b'd', d.to_vec())
}
pub fn copy_done() -> Msg {
    Msg::new(b'c', vec![])
}
pub fn copy_fail(m: &str) -> Msg {
    let mut b = Vec::new();
    cstr(&mut b, m);
    Msg::new(b'f', b)
}

// ---------------------------------------------------------------------------------------
// Backend messages
// ---------------------------------------------------------------------------------------

pub fn auth_ok() -> Msg {
    Msg::new(b'R', 0i32.to_be_bytes().to_vec())
}
pub fn auth_md5(salt: [u8; 4]) -> Msg {
    let mut b = 5i32.to_be_bytes().to_vec();
    b.extend_from_slice(&salt);
    Msg::new(b'R', b)
}
pub fn param_status(k: &str, v: &str) -> Msg {
    let mut b = Vec::new();
    cstr(&mut b, k);
    cstr(&mut b, v);
    Msg::new(b'S', b)
}
pub fn backend_key(pid: i32, key: i32) -> Msg {
    let mut b = pid.to_be_bytes().to_vec();
    b.extend_from_slice(&key.to_be_bytes());
    Msg::new(b'K', b)
}
pub fn ready(status: u8) -> Msg {
    Msg::new(b'Z', vec![status])
}
pub fn command_complete(tag: &str) -> Msg {
    let mut b = Vec::new();
    cstr(&mut b, tag);
    Msg::new(b'C', b)
}
pub fn empty_query() -> Msg {
    Msg::new(b'I', vec![])
}
pub fn parse_complete() -> Msg {
    Msg::new(b'1', vec![])
}
pub fn bind_complete() -> Msg {
    Msg::new(b'2', vec![])
}
pub fn close_complete() -> Msg {
    Msg::new(b'3', vec![])
}
pub fn no_data() -> Msg {
    Msg::new(b'n', vec![])
}
pub fn portal_suspended() -> Msg {
    Msg::new(b's', vec![])
}
pub fn param_description(types: &[i32]) -> Msg {
    let mut b = (types.len() as i16).to_be_bytes().to_vec();
    for t in types {
        b.extend_from_slice(&t.to_be_bytes());
    }
    Msg::new(b't', b)
}
pub fn row_description(cols: &[&str]) -> Msg {
    let mut b = (cols.len() as i16).to_be_bytes().to_vec();
    for c in cols {
        cstr(&mut b, c);
        b.extend_from_slice(&0i32.to_be_bytes());
        b.extend_from_slice(&0i16.to_be_bytes());
        b.extend_from_slice(&25i32.to_be_bytes());
        b.extend_from_slice(&(-1i16).to_be_bytes());
        b.extend_from_slice(&(-1i32).to_be_bytes());
        b.extend_from_slice(&0i16.to_be_bytes());
    }
    Msg::new(b'T', b)
}
pub fn data_row(cols: &[&[u8]]) -> Msg {
    let mut b = (cols.len() as i16).to_be_bytes().to_vec();
    for c in cols {
        b.extend_from_slice(&(c.len() as i32).to_be_bytes());
        b.extend_from_slice(c);
    }
    Msg::new(b'D', b)
}
pub fn error_response(severity: &str, code: &str, message: &str) -> Msg {
    let mut b = Vec::new();
    b.push(b'S');
    cstr(&mut b, severity);
    b.push(b'V');
    cstr(&mut b, severity);
    b.push(b'C');
    cstr(&mut b, code);
    b.push(b'M');
    // U+0001 in a message text stands for bytes that are not UTF-8 (a server whose messages or
    // echoed statement text are in another encoding)
    for x in message.bytes() {
        if x == 1 {
            b.extend_from_slice(&[0xc3, 0x28, 0xff]);
        } else {
            b.push(x);
        }
    }
    b.push(0);
    b.push(0);
    Msg::new(b'E', b)
}
pub fn notice_response(severity: &str, code: &str, message: &str) -> Msg {
    let mut m = error_response(severity, code, message);
    m.ty = b'N';
    m
}
pub fn copy_in_response() -> Msg {
    Msg::new(b'G', vec![0, 0, 1, 0, 0])
}
pub fn copy_out_response() -> Msg {
    Msg::new(b'H', vec![0, 0, 1, 0, 0])
}

/// Fields of an ErrorResponse / NoticeResponse body.
pub fn error_fields(body: &[u8]) -> BTreeMap<char, String> {
    let mut out = BTreeMap::new();
    let mut r = Reader::new(body);
    while let Some(t) = r.u8() {
        if t == 0 {
            break;
        }
        match r.cstr() {
            Some(s) => {
                out.insert(t as char, s);
            }
            None => break,
        }
    }
    out
}

/// Columns of a DataRow body (None = NULL).
pub fn data_row_cols(body: &[u8]) -> Vec<Option<Vec<u8>>> {
    let mut r = Reader::new(body);
    let n = r.i16().unwrap_or(0);
    let mut out = Vec::new();
    for _ in 0..n {
        match r.i32() {
            Some(l) if l >= 0 => match r.bytes(l as usize) {
                Some(b) => out.push(Some(b.to_vec())),
                None => break,
            },
            Some(_) => out.push(None),
            None => break,
        }
    }
    out
}

pub fn md5_hex(data: &[u8]) -> String {
    use md5::{Digest, Md5};
    let mut h = Md5::new();
    h.update(data);
    format!("{:x}", h.finalize())
}

/// "md5" + md5(md5(password ‖ user) ‖ salt) + NUL, as a PasswordMessage body.
pub fn md5_password_body(user: &str, password: &str, salt: &[u8]) -> Vec<u8> {
    let inner = md5_hex(format!("{}{}", password, user).as_bytes());
    md5_password_body_from_hash(&inner, salt)
}

pub fn md5_password_body_from_hash(inner_hex: &str, salt: &[u8]) -> Vec<u8> {
    let mut d = inner_hex.as_bytes().to_vec();
    d.extend_from_slice(salt);
    let mut out = format!("md5{}", md5_hex(&d)).into_bytes();
    out.push(0);
    out
}

pub fn hex(b: &[u8]) -> String {
    let mut s = String::with_capacity(b.len() * 2);
    for x in b {
        s.push_str(&format!("{:02x}", x));
    }
    s
}

pub fn unhex(s: &str) -> Vec<u8> {
    let s = s.as_bytes();
    let mut out = Vec::with_capacity(s.len() / 2);
    let mut i = 0;
    while i + 1 < s.len() {
        let h = (s[i] as char).to_digit(16).unwrap_or(0) as u8;
        let l = (s[i + 1] as char).to_digit(16).unwrap_or(0) as u8;
        out.push(h * 16 + l);
        i += 2;
    }
    out
}
