//! Shared world state: the recorded history, the named-event bus, host runtime state.

use crate::pgsession::StmtRec;
use crate::proto::Msg;
use crate::sqlmini::Tag;
use once_cell::sync::Lazy;
use parking_lot::Mutex;
use std::collections::BTreeMap;
use std::task::Waker;

// ------------------------------------------------------------------------------------------
// History
// ------------------------------------------------------------------------------------------

/// One request unit on a backend connection: the maximal run of frontend messages ending in
/// Q, Sync, CopyDone or CopyFail, and the reply bytes it produced.
#[derive(Clone, Debug, Default)]
pub struct Unit {
    pub first_seq: u64,
    pub last_seq: u64,
    pub in_bytes: Vec<u8>,
    pub out_bytes: Vec<u8>,
    pub in_types: Vec<u8>,
    pub tags: Vec<Tag>,
    pub stmt_idx: Vec<usize>,
    /// transaction status reported by the final ReadyForQuery of the unit (0 if none yet)
    pub rfq: u8,
    pub status_before: u8,
}

#[derive(Clone, Debug, Default)]
pub struct BackendConn {
    pub host: String,
    pub pid: i32,
    pub key: i32,
    pub opened_seq: u64,
    pub opened_us: u64,
    pub authed_seq: Option<u64>,
    pub authed_us: Option<u64>,
    pub closed_seq: Option<u64>,
    pub closed_us: Option<u64>,
    /// "eof" | "terminate" | "reset" | "killed" | "fatal" | "auth_failed" | "silent"
    pub close_how: String,
    pub user: String,
    pub database: String,
    pub application_name: String,
    /// "session" | "cancel" | "ssl_only" | "garbage"
    pub kind: String,
    pub units: Vec<Unit>,
    pub net_conn: u32,
}

#[derive(Clone, Debug)]
pub struct StmtEntry {
    pub conn: usize, // index into backend_conns
    pub rec: StmtRec,
    /// when the statement finished executing
    pub us: u64,
    /// when the message that ran it was read by the server
    pub start_us: u64,
    pub bans: Vec<String>,
}

#[derive(Clone, Debug, Default)]
pub struct CancelRec {
    pub seq: u64,
    pub us: u64,
    pub host: String,
    pub pid: i32,
    pub key: i32,
    /// index of the backend conn it matched (pid and key both equal), if any
    pub matched: Option<usize>,
    /// was that session running a statement at that moment
    pub hit_running: bool,
    pub running_tags: Vec<Tag>,
}

#[derive(Clone, Debug, Default, PartialEq)]
pub enum StepOutcome {
    #[default]
    NotRun,
    /// all expected ReadyForQuery arrived; last status byte
    Ready(u8),
    /// connection closed by peer before the step completed
    Closed(String),
    /// gave up after patience_ms
    Timeout,
    /// step does not read (think, emit, ...)
    Done,
    /// the client itself cut the connection
    Cut,
}

#[derive(Clone, Debug, Default)]
pub struct StepRec {
    pub client: u32,
    pub idx: usize,
    pub op: String,
    pub txn: u32,
    pub start_seq: u64,
    pub sent_seq: u64,
    pub done_seq: u64,
    pub start_us: u64,
    pub sent_us: u64,
    pub done_us: u64,
    pub sent: Vec<u8>,
    pub recv: Vec<u8>,
    pub msgs: Vec<Msg>,
    pub outcome: StepOutcome,
    pub tags: Vec<Tag>,
}

#[derive(Clone, Debug, Default)]
pub struct ClientRec {
    pub id: u32,
    pub role: String,
    pub user: String,
    pub database: String,
    pub connect_seq: u64,
    pub connect_us: u64,
    pub connected: bool,
    /// "ok" | "error:<message>" | "closed" | "refused" | "timeout" | "notrun"
    pub auth_result: String,
    pub auth_ok_seq: Option<u64>,
    pub ready_seq: Option<u64>,
    pub salt: Option<[u8; 4]>,
    pub password_sent: Option<Vec<u8>>,
    /// the exact bytes sent in reply to the MD5 challenge (whatever the behaviour)
    pub password_msg: Option<Vec<u8>>,
    pub params: BTreeMap<String, String>,
    pub key: Option<(i32, i32)>,
    pub startup_msgs: Vec<Msg>,
    pub finished: bool,
    pub finished_seq: u64,
    pub steps: Vec<StepRec>,
    pub net_conn: u32,
}

#[derive(Default)]
pub struct History {
    pub backend_conns: Vec<BackendConn>,
    pub stmts: Vec<StmtEntry>,
    pub cancels: Vec<CancelRec>,
    pub clients: BTreeMap<u32, ClientRec>,
    pub actions: Vec<(u64, u64, String)>,
    pub probes: BTreeMap<String, u64>,
    pub faults: BTreeMap<String, u64>,
    pub panics: Vec<String>,
    pub ban_samples: Vec<(u64, u64, Vec<String>)>,
    pub state_hashes: std::collections::BTreeSet<u64>,
    /// (seq, host, user, database, live authenticated sessions incl. the new one, counted at PgCat's end)
    pub authed_samples: Vec<(u64, String, String, String, usize)>,
}

pub static HIST: Lazy<Mutex<History>> = Lazy::new(|| Mutex::new(History::default()));

pub fn probe(name: &str) {
    *HIST.lock().probes.entry(name.to_string()).or_insert(0) += 1;
}

pub fn fault(name: &str) {
    *HIST.lock().faults.entry(name.to_string()).or_insert(0) += 1;
}

// ------------------------------------------------------------------------------------------
// Named events (happens-before edges established by the simulator)
// ------------------------------------------------------------------------------------------

#[derive(Default)]
struct Bus {
    fired: BTreeMap<String, (u64, u64)>,
    waiters: BTreeMap<String, Vec<Waker>>,
}

static BUS: Lazy<Mutex<Bus>> = Lazy::new(|| Mutex::new(Bus::default()));

pub fn emit(name: &str) -> u64 {
    let seq = simcore::log::world(|| format!("ev {}", name));
    let mut b = BUS.lock();
    b.fired.entry(name.to_string()).or_insert((seq, simcore::clock::now_us()));
    if let Some(ws) = b.waiters.remove(name) {
        for w in ws {
            w.wake();
        }
    }
    seq
}

pub fn fired(name: &str) -> Option<u64> {
    BUS.lock().fired.get(name).map(|x| x.0)
}

/// (event seq, virtual us) of the first firing of a named event.
pub fn fired_at(name: &str) -> Option<(u64, u64)> {
    BUS.lock().fired.get(name).cloned()
}

pub async fn wait(name: &str) {
    std::future::poll_fn(|cx| {
        let mut b = BUS.lock();
        if b.fired.contains_key(name) {
            std::task::Poll::Ready(())
        } else {
            b.waiters.entry(name.to_string()).or_default().push(cx.waker().clone());
            std::task::Poll::Pending
        }
    })
    .await
}

// ------------------------------------------------------------------------------------------
// Host runtime state
// ------------------------------------------------------------------------------------------

#[derive(Clone, Debug, PartialEq)]
pub enum Behaviour {
    Normal,
    /// accept and read, never answer (hung server)
    Silent,
    /// add this many virtual ms before every reply
    Slow(u64),
    /// answer the startup packet with a FATAL error
    RejectStartup,
    /// every statement fails with an ERROR (a server whose replies must never be mistaken for
    /// another server's)
    Errors,
}

pub struct HostRt {
    pub spec: crate::spec::HostSpec,
    pub behaviour: tokio::sync::watch::Sender<Behaviour>,
    pub kill: tokio::sync::watch::Sender<(u64, bool)>,
    pub next_pid: i32,
    pub shadow: BTreeMap<String, String>,
    pub index: usize,
}

pub static HOSTS: Lazy<Mutex<BTreeMap<String, HostRt>>> = Lazy::new(|| Mutex::new(BTreeMap::new()));

/// Sessions currently alive, for CancelRequest delivery: (host, pid) -> (key, conn idx, cancel flag)
pub struct LiveSession {
    pub key: i32,
    pub conn: usize,
    pub running: bool,
    pub running_tags: Vec<Tag>,
    pub cancel: std::sync::Arc<tokio::sync::Notify>,
    pub cancelled: bool,
}

pub static LIVE: Lazy<Mutex<BTreeMap<(String, i32), LiveSession>>> = Lazy::new(|| Mutex::new(BTreeMap::new()));

static LAST_BANS: Lazy<Mutex<Option<Vec<String>>>> = Lazy::new(|| Mutex::new(None));

/// Record the ban list if it differs from the last recorded one (shared by the periodic sampler
/// and the per-statement snapshots, so that a clear-and-re-ban between two sampler ticks is not lost).
pub fn record_bans(list: &[String]) {
    let mut last = LAST_BANS.lock();
    if last.as_deref() != Some(list) {
        let seq = simcore::log::world(|| format!("bans {:?}", list));
        HIST.lock().ban_samples.push((seq, simcore::clock::now_us(), list.to_vec()));
        *last = Some(list.to_vec());
    }
}
