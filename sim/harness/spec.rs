//! The run specification (child input, replay file body) and the verdict (child output).
//! Generation is `seed -> Spec` (pure); execution is `Spec -> Verdict` (pure).

use serde::{Deserialize, Serialize};
use std::collections::BTreeMap;

#[derive(Clone, Debug, Serialize, Deserialize, Default)]
pub struct Spec {
    pub format: u32,
    pub property: String,
    pub family: String,
    pub seed: u64,
    pub config_toml: String,
    pub hosts: Vec<HostSpec>,
    pub net: NetSpec,
    #[serde(default)]
    pub yield_sites: Vec<(String, u32)>,
    pub clients: Vec<ClientSpec>,
    #[serde(default)]
    pub actions: Vec<ActionSpec>,
    pub end: EndSpec,
    /// oracle ids to evaluate
    pub oracles: Vec<String>,
    /// family-specific knobs read by oracles
    #[serde(default)]
    pub params: BTreeMap<String, serde_json::Value>,
    /// set in replay files: the violation this spec is expected to reproduce
    #[serde(default, skip_serializing_if = "Option::is_none")]
    pub expect: Option<Violation>,
    #[serde(default)]
    pub trace: bool,
}

#[derive(Clone, Debug, Serialize, Deserialize, Default)]
pub struct HostSpec {
    /// "name:port" as written in the PgCat config
    pub addr: String,
    pub shard: i32,
    pub role: String,
    pub pool: String,
    /// "trust" | "md5"
    pub auth: String,
    /// user -> cleartext password accepted by this server
    pub users: BTreeMap<String, String>,
    /// user -> password served to auth_query lookups (md5 hash is derived)
    #[serde(default)]
    pub shadow: BTreeMap<String, String>,
    #[serde(default)]
    pub mirror_of: Option<String>,
}

#[derive(Clone, Debug, Serialize, Deserialize)]
pub struct NetSpec {
    pub latency_ms: (u64, u64),
    pub jitter_ms: u64,
    pub sndbuf: usize,
    /// "whole" | "mixed" | "dribble"
    pub seg: String,
    pub short_reads: bool,
    pub chaos: f64,
}

impl Default for NetSpec {
    fn default() -> Self {
        NetSpec { latency_ms: (0, 0), jitter_ms: 0, sndbuf: 262144, seg: "whole".into(), short_reads: false, chaos: 0.0 }
    }
}

#[derive(Clone, Debug, Serialize, Deserialize, Default)]
pub struct EndSpec {
    /// virtual deadline for the whole run
    pub deadline_ms: u64,
    /// virtual pause between the main phase and the final (probe) phase
    pub calm_ms: u64,
}

#[derive(Clone, Debug, Serialize, Deserialize, PartialEq)]
#[serde(tag = "k")]
pub enum When {
    #[serde(rename = "ms")]
    AtMs { ms: u64 },
    #[serde(rename = "after")]
    After { ev: String, delay_ms: u64 },
}

impl Default for When {
    fn default() -> Self {
        When::AtMs { ms: 0 }
    }
}

#[derive(Clone, Debug, Serialize, Deserialize, Default)]
pub struct ClientSpec {
    pub id: u32,
    pub start: When,
    /// "main" | "final"
    #[serde(default = "main_phase")]
    pub phase: String,
    pub user: String,
    pub database: String,
    #[serde(default)]
    pub password: Option<String>,
    #[serde(default)]
    pub startup_params: Vec<(String, String)>,
    /// "correct" | "wrong" | "replay:<client id>" | "truncated" | "othermsg" | "eof" | "none" | "hash:<hex inner md5>"
    #[serde(default = "auth_correct")]
    pub auth: String,
    /// send SSLRequest first (PgCat answers N without a certificate)
    #[serde(default)]
    pub ssl_probe: bool,
    /// negotiate TLS when the pooler offers it (SSLRequest answered S)
    #[serde(default)]
    pub tls: bool,
    /// raw bytes to send instead of a startup packet (hex)
    #[serde(default)]
    pub raw_startup: Option<String>,
    pub steps: Vec<Step>,
    /// virtual ms a step may take before the client gives up on it (liveness oracle)
    #[serde(default = "default_patience")]
    pub patience_ms: u64,
    /// role of this client for oracles: "worker" | "canary" | "attacker" | "admin" | "probe" | "canceller"
    #[serde(default = "role_worker")]
    pub role: String,
}

fn main_phase() -> String {
    "main".into()
}
fn auth_correct() -> String {
    "correct".into()
}
fn default_patience() -> u64 {
    600_000
}
fn role_worker() -> String {
    "worker".into()
}

#[derive(Clone, Debug, Serialize, Deserialize, PartialEq)]
#[serde(tag = "t")]
pub enum FrontMsg {
    Q { sql: String },
    P { name: String, sql: String, types: Vec<i32> },
    B { portal: String, stmt: String, fmt: Vec<i16>, params: Vec<Option<String>>, rfmt: Vec<i16>, #[serde(default)] binary_hex: bool },
    D { kind: String, name: String },
    E { portal: String, max: i32 },
    C { kind: String, name: String },
    S,
    H,
    X,
    #[serde(rename = "d")]
    CopyData { len: usize },
    #[serde(rename = "c")]
    CopyDone,
    #[serde(rename = "f")]
    CopyFail { msg: String },
    #[serde(rename = "raw")]
    Raw { hex: String },
}

#[derive(Clone, Debug, Serialize, Deserialize, PartialEq)]
#[serde(tag = "op")]
pub enum Step {
    /// Send the messages in one write (or `chunks`), then read until `rfq` ReadyForQuery were seen
    /// (default: number of Q and S messages sent).
    #[serde(rename = "send")]
    Send {
        msgs: Vec<FrontMsg>,
        #[serde(default)]
        rfq: Option<usize>,
        /// send only the first `cut` bytes, then drop the connection
        #[serde(default)]
        cut: Option<usize>,
        /// drop with RST instead of FIN
        #[serde(default)]
        abort: bool,
        #[serde(default)]
        txn: u32,
    },
    /// COPY ... FROM STDIN: send the query, wait for CopyInResponse, send `chunks` CopyData of the
    /// given sizes, then CopyDone (or CopyFail), read to ReadyForQuery.
    #[serde(rename = "copyin")]
    CopyIn {
        sql: String,
        chunks: Vec<usize>,
        fail: bool,
        /// disconnect after this many CopyData messages instead of finishing
        #[serde(default)]
        drop_after: Option<usize>,
        #[serde(default)]
        txn: u32,
    },
    #[serde(rename = "think")]
    Think { ms: u64 },
    #[serde(rename = "wait")]
    Wait { ev: String },
    #[serde(rename = "emit")]
    Emit { ev: String },
    /// Terminate message then close
    #[serde(rename = "terminate")]
    Terminate,
    /// close the socket without Terminate
    #[serde(rename = "drop")]
    Drop {
        #[serde(default)]
        abort: bool,
    },
    /// raw bytes; then read whatever arrives for `read_ms` (or until close)
    #[serde(rename = "raw")]
    Raw { hex: String, read_ms: u64 },
    /// open a separate connection and send CancelRequest with the key of `target` client
    /// ("own" key as received at login), or a stale/random key
    #[serde(rename = "cancel")]
    Cancel { target: u32, key: String },
    /// keep the connection open and idle until the event fires (or forever)
    #[serde(rename = "hold")]
    Hold { until: Option<String>, max_ms: u64 },
}

#[derive(Clone, Debug, Serialize, Deserialize)]
pub struct ActionSpec {
    pub at: When,
    pub act: Action,
}

#[derive(Clone, Debug, Serialize, Deserialize, PartialEq)]
#[serde(tag = "a")]
pub enum Action {
    /// "up" | "refuse" | "hang"
    #[serde(rename = "host_mode")]
    HostMode { host: String, mode: String },
    /// "normal" | "silent" | "slow:<ms>" | "reject_startup"
    #[serde(rename = "host_behaviour")]
    HostBehaviour { host: String, b: String },
    /// close every open backend connection of the host ("fin" | "rst")
    #[serde(rename = "kill_conns")]
    KillConns { host: String, how: String },
    /// "INT" | "TERM" | "HUP"
    #[serde(rename = "signal")]
    Signal { sig: String },
    /// kind: "data" | "missing" | "readerror"
    #[serde(rename = "set_file")]
    SetFile { kind: String, content: String },
    #[serde(rename = "emit")]
    Emit { ev: String },
    /// change the password rows served to auth_query
    #[serde(rename = "set_shadow")]
    SetShadow { host: String, user: String, password: String },
    /// change the password a server accepts for a role
    #[serde(rename = "set_host_user")]
    SetHostUser { host: String, user: String, password: String },
}

#[derive(Clone, Debug, Serialize, Deserialize, PartialEq, Default)]
pub struct Violation {
    pub property: String,
    pub oracle: String,
    pub fingerprint: String,
    pub seq: u64,
    pub msg: String,
}

#[derive(Clone, Debug, Serialize, Deserialize, Default)]
pub struct Verdict {
    pub violations: Vec<Violation>,
    pub probes: BTreeMap<String, u64>,
    pub faults: BTreeMap<String, u64>,
    pub signature: String,
    pub digest: String,
    pub states: u64,
    pub sim_us: u64,
    pub events: u64,
    pub main_exit_us: Option<u64>,
    pub panics: Vec<String>,
    pub summary: String,
    #[serde(default)]
    pub trace: Vec<String>,
    #[serde(default)]
    pub info: BTreeMap<String, serde_json::Value>,
}
