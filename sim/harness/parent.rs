//! Parent process: seeds -> specs -> child runs (16 at a time) -> aggregate -> known-finding
//! triage -> minimise -> replay file -> evidence.

use crate::spec::{Spec, Verdict, Violation};
use std::collections::{BTreeMap, BTreeSet};
use std::io::Write;
use std::path::{Path, PathBuf};
use std::process::{Command, Stdio};
use std::sync::atomic::{AtomicBool, AtomicUsize, Ordering};
use std::sync::{Arc, Mutex};
use std::time::Instant;

pub const DEFAULT_SEED: u64 = 20260925;

pub fn verif_root() -> PathBuf {
    if let Ok(r) = std::env::var("VERIF_ROOT") {
        return PathBuf::from(r);
    }
    // binary lives in <root>/sim/target/release/simharness
    let exe = std::env::current_exe().unwrap_or_else(|_| PathBuf::from("/verif/sim/target/release/simharness"));
    let mut p = exe.clone();
    for _ in 0..4 {
        p.pop();
    }
    if p.join("properties.jsonl").exists() {
        p
    } else {
        PathBuf::from("/verif")
    }
}

#[derive(Debug)]
pub enum ChildResult {
    Verdict(Box<Verdict>),
    /// exit code 78 (exitcode::CONFIG) without a verdict: PgCat rejected its configuration at startup
    ConfigRejected,
    HarnessError(String),
}

/// One run in a fresh process. A child that the 60 s wall-clock watchdog had to kill is run
/// once more: a run is a pure function of its spec, so a second attempt that completes shows
/// that the first one was starved by the machine (a frozen sandbox, a build next door), while
/// a run that really hangs is killed again and reported as a harness error.
pub fn run_child(spec: &Spec) -> ChildResult {
    match run_child_once(spec) {
        ChildResult::HarnessError(e) if e.contains("killed by signal") => run_child_once(spec),
        r => r,
    }
}

fn run_child_once(spec: &Spec) -> ChildResult {
    // the running image itself, even if the file on disk was rebuilt meanwhile
    let mut cmd = Command::new("/proc/self/exe");
    cmd.env("SIMH_CHILD", "1").env_remove("RUST_LOG").stdin(Stdio::piped()).stdout(Stdio::piped());
    if std::env::var("SIMH_STDERR").is_ok() {
        cmd.stderr(Stdio::inherit());
    } else {
        cmd.stderr(Stdio::null());
    }
    let mut child = match cmd.spawn() {
        Ok(c) => c,
        Err(e) => return ChildResult::HarnessError(format!("spawn: {}", e)),
    };
    {
        let mut stdin = child.stdin.take().unwrap();
        let data = serde_json::to_vec(spec).unwrap();
        let _ = stdin.write_all(&data);
    }
    let out = match child.wait_with_output() {
        Ok(o) => o,
        Err(e) => return ChildResult::HarnessError(format!("wait: {}", e)),
    };
    let text = String::from_utf8_lossy(&out.stdout);
    if std::env::var("SIMH_LOG").is_ok() {
        // PgCat's tracing subscriber writes to stdout: show it when asked for
        for l in text.lines().filter(|l| !l.starts_with('{')) {
            eprintln!("{}", l);
        }
    }
    if let Some(line) = text.lines().rev().find(|l| l.starts_with('{')) {
        match serde_json::from_str::<Verdict>(line) {
            Ok(v) => return ChildResult::Verdict(Box::new(v)),
            Err(e) => return ChildResult::HarnessError(format!("bad verdict json: {}", e)),
        }
    }
    match out.status.code() {
        Some(c) if c == crate::memlimit::OOM_EXIT => {
            // the simulated deployment's memory limit killed the pooler (see memlimit.rs)
            let (req, live, site) = text
                .lines()
                .rev()
                .find_map(|l| l.strip_prefix("OOM ").map(|r| r.to_string()))
                .map(|r| {
                    let mut it = r.split_whitespace();
                    let a = it.next().and_then(|x| x.parse::<u64>().ok()).unwrap_or(0);
                    let b = it.next().and_then(|x| x.parse::<u64>().ok()).unwrap_or(0);
                    (a, b, it.next().unwrap_or("unknown").to_string())
                })
                .unwrap_or((0, 0, "unknown".into()));
            let limit = spec.params.get("mem_limit_mb").and_then(|v| v.as_u64()).unwrap_or(0);
            let mut v = Verdict::default();
            v.violations.push(crate::spec::Violation {
                property: spec.property.clone(),
                oracle: "memory_limit".into(),
                fingerprint: format!("{}/pooler_killed_by_memory_limit/{}", spec.property, site),
                seq: 0,
                msg: format!("{} asked for {} bytes in one allocation with {} bytes live; the deployment's memory limit is {} MiB: the process is killed and every client loses its connection", site, req, live, limit),
            });
            v.digest = format!("oom-{:x}", req);
            v.signature = v.digest.clone();
            v.summary = "pooler killed by memory limit".into();
            v.probes.insert("memory_limit_kill".into(), 1);
            ChildResult::Verdict(Box::new(v))
        }
        Some(78) if spec.params.get("c15_expect").and_then(|v| v.as_str()).map(|e| e != "accept").unwrap_or(false) => {
            // C15: the configuration was refused at startup, which is the expected (or an allowed) answer
            let kind = spec.params.get("c15_kind").and_then(|v| v.as_str()).unwrap_or("").to_string();
            let mut v = Verdict::default();
            v.digest = format!("rejected-{}", kind);
            v.signature = v.digest.clone();
            v.summary = "configuration rejected at startup".into();
            v.probes.insert("c15_config_rejected".into(), 1);
            v.probes.insert(format!("c15_rejected_{}", kind), 1);
            ChildResult::Verdict(Box::new(v))
        }
        Some(78) => ChildResult::ConfigRejected,
        Some(c) => ChildResult::HarnessError(format!("child exited with code {} and no verdict", c)),
        None => ChildResult::HarnessError(format!("child killed by signal ({:?}) and no verdict", out.status)),
    }
}

#[derive(serde::Deserialize, serde::Serialize, Clone, Debug)]
pub struct KnownFinding {
    pub property: String,
    #[serde(default)]
    pub oracle: String,
    pub fingerprint: String,
    pub status: String,
    #[serde(default)]
    pub commit: Option<String>,
    pub what: String,
    #[serde(default)]
    pub replay: Option<String>,
}

pub fn load_known(root: &Path) -> Vec<KnownFinding> {
    let p = root.join("known_findings.json");
    match std::fs::read_to_string(&p) {
        Ok(s) => serde_json::from_str(&s).unwrap_or_else(|e| {
            eprintln!("HARNESS-ERROR: known_findings.json does not parse: {}", e);
            std::process::exit(2);
        }),
        Err(_) => Vec::new(),
    }
}

/// `*` in a pattern stands for any run of characters.
fn fp_matches(pattern: &str, fp: &str) -> bool {
    let parts: Vec<&str> = pattern.split('*').collect();
    if parts.len() == 1 {
        return pattern == fp;
    }
    let mut rest = fp;
    for (i, part) in parts.iter().enumerate() {
        if i == 0 {
            match rest.strip_prefix(part) {
                Some(r) => rest = r,
                None => return false,
            }
        } else if i + 1 == parts.len() {
            return rest.ends_with(part);
        } else {
            match rest.find(part) {
                Some(pos) => rest = &rest[pos + part.len()..],
                None => return false,
            }
        }
    }
    true
}

pub fn known_open<'a>(known: &'a [KnownFinding], v: &Violation) -> Option<&'a KnownFinding> {
    known.iter().find(|k| k.status == "open" && k.property == v.property && fp_matches(&k.fingerprint, &v.fingerprint))
}

pub struct Budget {
    pub runs: u64,
    pub wall_s: u64,
}

pub fn budget(property: &str, tier: &str) -> Budget {
    let quick = tier != "thorough";
    let scale: u64 = std::env::var("VERIF_RUNS_SCALE").ok().and_then(|s| s.parse().ok()).unwrap_or(100);
    let base = match (property, quick) {
        (_, true) => 8000,
        (_, false) => 300000,
    };
    Budget { runs: (base * scale / 100).max(16), wall_s: if quick { 90 } else { 1500 } }
}

/// Probes that must have fired at least once over the whole batch, else the check is blind.
pub fn required_probes(property: &str) -> Vec<&'static str> {
    match property {
        "C01" => vec!["c01_concurrent_open_txns", "attributed_rows", "c01_multi_statement_txn"],
        "C02" => vec!["c02_handoff", "c02_handoff_after_abnormal_stop"],
        "C03" => vec!["relay_compared_steps", "relay_reply_ge_8196", "net_split_read", "client_tls_established", "relay_pooler_error_reply"],
        "C04" => vec!["c04_pool_full", "c04_probe_served", "c04_step_waited_20ms"],
        "C12" => vec!["c12_checked_statements", "c12_nondefault_value_checked", "c12_parameter_status_seen"],
        "C07" => vec!["c07_some_ban_seen", "c07_routed_around_ban", "c07_failure_judged", "c07_break_mid_statement", "c07_transparent_failover_after_timeout", "c07_ban_ended_and_replica_used_again"],
        "C17" => vec!["c17_signal_raised", "c17_sigterm", "c17_idle_client_at_signal", "c17_mid_transaction_client_at_signal", "c17_in_progress_transaction_finished", "c17_new_client_during_shutdown", "c17_admin_login_during_shutdown", "c17_all_clients_gone_before_timeout", "c17_timeout_path", "c17_client_between_batch_messages_at_signal"],
        "C14" => vec!["c14_reload_happened", "c14_console_compared", "c14_transaction_straddled_reload", "c14_new_definition_used", "c14_removed_pool_refused", "c14_added_pool_served", "c14_pool_of_rejected_config_refused", "c14_roles_after_reload_checked"],
        "C18" => vec!["c18_sample_at_barrier", "c18_final_sample", "c18_totals_compared", "c18_monotone_compared"],
        "C09" => vec!["c09_md5_challenge_seen", "c09_valid_login", "c09_attack_wrong", "c09_attack_replay", "c09_attack_truncated", "c09_attack_hash_empty", "c09_attack_othermsg", "c09_attack_unknown_user", "c09_attack_admin_wrong", "c09_attack_old_password_after_change", "c09_valid_login_admitted", "c09_login_during_shutdown", "c09_attack_late_correct", "c09_tls_client_admitted", "c09_tls_client_refused", "client_tls_established"],
        "C10" => vec!["c10_cancel_at_backend", "c10_cancel_hit_own_statement", "c10_running_statement_cancelled", "c10_unknown_key_sent", "c10_idle_target_no_contact", "c10_departed_target_no_contact"],
        "C11" => vec!["c11_canary_step_checked", "c11_stage_startup", "c11_stage_password", "c11_stage_post_auth", "c11_stage_in_txn", "c11_stage_in_copy", "c11_stage_admin", "c11_stage_after_parse", "relay_compared_steps", "c11_payload_len_negative", "c11_payload_unknown_type", "c11_payload_b_param_len_beyond", "c11_payload_random_bytes"],
        "C13" => vec!["c13_command", "c13_not_a_command", "c13_non_command_forwarded", "c13_show_compared", "c13_out_of_range_refused", "c13_number_beyond_64_bits", "c13_grey_spelling"],
        "C06" => vec!["c06_statement_checked", "c06_decided_among_several_shards", "c06_set_sharding_key", "c06_set_shard", "c06_set_shard_out_of_range", "c06_path_sticky", "c06_path_comment_key", "c06_path_comment_shard", "c06_path_auto_literal", "c06_path_bind_text", "c06_path_bind_binary8", "c06_path_bind_binary4", "c06_path_bind_binary2"],
        "C05" => vec!["c05_statement_checked", "c05_decided_plain_read_replica", "c05_decided_write_primary", "c05_decided_ddl_primary", "c05_decided_utility_primary", "c05_decided_dm_cte_primary", "c05_decided_lock_primary", "c05_decided_select_into_primary", "c05_decided_txn_start_primary", "c05_decided_multi_with_write_primary", "c05_set_server_role_primary", "c05_set_server_role_replica", "c05_set_server_role_auto", "c05_statement_after_reload"],
        "C19" => vec!["c19_listed_statement_checked", "c19_intercept_checked", "c19_control_plugins_disabled", "c19_where_simple", "c19_where_multi_statement", "c19_where_extended", "c19_where_batch_first", "c19_where_batch_last", "c19_where_in_transaction_simple", "c19_where_in_transaction_extended", "c19_where_named_parse_then_later_bind", "c19_spelling_upper", "c19_spelling_quoted", "c19_spelling_qualified", "c19_statement_after_enabling_reload"],
        "C20" => vec!["relay_compared_steps", "c20_latency_checked", "c20_mirror_connection", "c20_mirror_unit_checked"],
        "C15" => vec!["c15_config_rejected", "c15_config_accepted", "c15_probe_checked", "c15_default_shard_probe_checked", "c15_admin_step_checked", "c15_accepted_valid", "c15_rejected_two_primaries", "c15_rejected_duplicate_server", "c15_rejected_default_shard_beyond_range", "c15_rejected_shard_id_not_numeric"],
        "C16" => vec!["c16_pause_interval", "c16_txn_sent_while_paused", "c16_client_held_then_released", "yield:pool.wait_paused.between"],
        "C08" => vec!["c08_execute_checked", "c08_execute_on_reused_connection", "c08_eviction_close_sent", "c08_reference_compared_steps", "c08_batch_exceeds_cache"],
        _ => vec![],
    }
}

#[derive(Default)]
struct Agg {
    runs: u64,
    rejected: u64,
    sim_us: u128,
    events: u128,
    probes: BTreeMap<String, u64>,
    probe_runs: BTreeMap<String, u64>,
    faults: BTreeMap<String, u64>,
    signatures: BTreeSet<String>,
    nontrivial_signatures: BTreeSet<String>,
    states: u64,
    samples: Vec<serde_json::Value>,
    violations: Vec<(u64, Violation)>,
    harness_errors: Vec<String>,
    families: BTreeMap<String, u64>,
    panics: u64,
}

pub fn check(property: &str, tier: &str) -> i32 {
    let root = verif_root();
    let seed: u64 = std::env::var("VERIF_SEED").ok().and_then(|s| s.parse().ok()).unwrap_or(DEFAULT_SEED);
    let known = load_known(&root);
    let b = budget(property, tier);
    let workers: usize = std::env::var("VERIF_WORKERS").ok().and_then(|s| s.parse().ok()).unwrap_or(16);
    let started = Instant::now();
    println!("check {} tier={} seed={} runs<={} wall<={}s workers={}", property, tier, seed, b.runs, b.wall_s, workers);

    let next = Arc::new(AtomicUsize::new(0));
    let stop = Arc::new(AtomicBool::new(false));
    let agg = Arc::new(Mutex::new(Agg::default()));
    let req = required_probes(property);
    let mut handles = Vec::new();
    for _ in 0..workers {
        let next = next.clone();
        let stop = stop.clone();
        let agg = agg.clone();
        let property = property.to_string();
        let tier = tier.to_string();
        let req: Vec<String> = req.iter().map(|s| s.to_string()).collect();
        let total = b.runs;
        let wall = b.wall_s;
        handles.push(std::thread::spawn(move || loop {
            if stop.load(Ordering::SeqCst) {
                break;
            }
            let i = next.fetch_add(1, Ordering::SeqCst) as u64;
            if i >= total {
                break;
            }
            if started.elapsed().as_secs() >= wall {
                break;
            }
            let spec = crate::gen::generate(&property, &tier, seed, i);
            let res = run_child(&spec);
            let mut a = agg.lock().unwrap();
            a.runs += 1;
            *a.families.entry(spec.family.clone()).or_insert(0) += 1;
            match res {
                ChildResult::Verdict(v) => {
                    a.sim_us += v.sim_us as u128;
                    a.events += v.events as u128;
                    let mut nontrivial = req.is_empty();
                    for (k, n) in &v.probes {
                        *a.probes.entry(k.clone()).or_insert(0) += n;
                        *a.probe_runs.entry(k.clone()).or_insert(0) += 1;
                        if req.iter().any(|r| r == k) {
                            nontrivial = true;
                        }
                    }
                    for (k, n) in &v.faults {
                        *a.faults.entry(k.clone()).or_insert(0) += n;
                    }
                    a.signatures.insert(v.signature.clone());
                    if nontrivial {
                        a.nontrivial_signatures.insert(v.signature.clone());
                    }
                    a.states += v.states;
                    a.panics += v.panics.len() as u64;
                    if a.samples.len() < 3 {
                        a.samples.push(serde_json::json!({"run": i, "run_seed": spec.seed, "family": spec.family, "summary": v.summary, "sim_ms": v.sim_us / 1000, "probes": v.probes, "faults": v.faults, "clients": spec.clients.len(), "first_client_steps": spec.clients.first().map(|c| c.steps.iter().take(4).collect::<Vec<_>>())}));
                    }
                    for viol in &v.violations {
                        a.violations.push((i, viol.clone()));
                    }
                }
                ChildResult::ConfigRejected => {
                    a.rejected += 1;
                    if spec.params.get("expect_startup_reject").and_then(|v| v.as_bool()) != Some(true) && spec.params.get("startup_reject_ok").and_then(|v| v.as_bool()) != Some(true) {
                        a.harness_errors.push(format!("run {}: PgCat rejected a configuration the generator believed valid", i));
                    }
                }
                ChildResult::HarnessError(e) => {
                    a.harness_errors.push(format!("run {}: {}", i, e));
                    if a.harness_errors.len() > 20 {
                        stop.store(true, Ordering::SeqCst);
                    }
                }
            }
        }));
    }
    for h in handles {
        let _ = h.join();
    }
    let a = Arc::try_unwrap(agg).ok().unwrap().into_inner().unwrap();
    let wall = started.elapsed().as_secs_f64();

    // ---- determinism spot check: re-run a few specs, digests must agree ----
    let mut det_diffs = 0;
    let det_n = 6u64.min(a.runs);
    for i in 0..det_n {
        let spec = crate::gen::generate(property, tier, seed, i);
        let r1 = run_child(&spec);
        let r2 = run_child(&spec);
        if let (ChildResult::Verdict(v1), ChildResult::Verdict(v2)) = (&r1, &r2) {
            if v1.digest != v2.digest {
                det_diffs += 1;
            }
        }
    }

    // ---- triage ----
    let mut exit = 0;
    let mut known_seen: BTreeMap<String, (u64, String)> = BTreeMap::new();
    let mut unknown: BTreeMap<(String, String), (u64, Violation)> = BTreeMap::new();
    for (i, v) in &a.violations {
        if v.property == "HARNESS" {
            println!("HARNESS-ERROR: {} {}", v.fingerprint, v.msg);
            exit = 2;
            continue;
        }
        if let Some(k) = known_open(&known, v) {
            let e = known_seen.entry(k.fingerprint.clone()).or_insert((0, k.what.clone()));
            e.0 += 1;
        } else {
            unknown.entry((v.property.clone(), v.fingerprint.clone())).or_insert((*i, v.clone()));
        }
    }
    for (fp, (n, what)) in &known_seen {
        let prop = known.iter().find(|k| &k.fingerprint == fp).map(|k| k.property.clone()).unwrap_or_default();
        println!("KNOWN-FINDING: property={} {} [{}; seen in {} run(s)]", prop, what, fp, n);
    }
    let mut violation_lines = Vec::new();
    for ((prop, fp), (i, v)) in &unknown {
        let spec = crate::gen::generate(property, tier, seed, *i);
        println!("violation candidate: property={} fingerprint={} run={} seq={} {}", prop, fp, i, v.seq, v.msg);
        let (min_spec, reproduced) = minimise(&spec, v);
        if !reproduced {
            println!("HARNESS-ERROR: violation {} of run {} did not reproduce in a fresh process (nondeterminism)", fp, i);
            exit = 2;
            continue;
        }
        let path = write_replay(&root, prop, &min_spec, v);
        // report under the property the violation belongs to
        violation_lines.push(format!("VIOLATION property={} replay={}", prop, path.display()));
        println!("  fingerprint={} oracle={} msg={}", fp, v.oracle, v.msg);
    }
    for l in &violation_lines {
        println!("{}", l);
    }
    if !violation_lines.is_empty() && exit == 0 {
        exit = 1;
    }
    if !a.harness_errors.is_empty() {
        for e in a.harness_errors.iter().take(10) {
            println!("HARNESS-ERROR: {}", e);
        }
        if exit == 0 {
            exit = 2;
        }
    }
    if det_diffs > 0 {
        println!("HARNESS-ERROR: determinism spot check failed: {} of {} re-run specs produced a different event-log digest", det_diffs, det_n);
        if exit == 0 {
            exit = 2;
        }
    }
    let mut missing = Vec::new();
    for r in &req {
        if a.probes.get(*r).cloned().unwrap_or(0) == 0 {
            missing.push(r.to_string());
        }
    }
    if !missing.is_empty() && exit == 0 && a.runs >= 200 {
        println!("HARNESS-ERROR: required probes never fired: {:?} (the check would be blind)", missing);
        exit = 2;
    }

    // ---- evidence ----
    let level = level_of(property);
    let ev = serde_json::json!({
        "property_id": property,
        "tier": if tier == "thorough" { "thorough" } else { "quick" },
        "seed": seed,
        "level": level,
        "coverage": {
            "evaluations": a.runs,
            "distinct_nontrivial": a.nontrivial_signatures.len(),
            "rule": rule_of(property),
            "samples": a.samples,
            "distinct_interleaving_signatures": a.signatures.len(),
            "distinct_abstract_states_sum": a.states,
            "runs_per_hour": if wall > 0.0 { (a.runs as f64 / wall * 3600.0) as u64 } else { 0 },
            "simulated_seconds": (a.sim_us / 1_000_000) as u64,
            "events": a.events as u64,
            "fault_counts": a.faults,
            "probe_counts": a.probes,
            "probe_runs": a.probe_runs,
            "families": a.families,
            "required_probes": req,
            "startup_rejected_runs": a.rejected,
            "panics_recorded": a.panics,
            "determinism_spot_check": {"specs_rerun": det_n, "digest_differences": det_diffs},
            "known_findings_seen": known_seen.iter().map(|(k, (n, _))| (k.clone(), *n)).collect::<BTreeMap<_, _>>(),
            "components": components(property),
            "workers": workers,
        },
        "assumptions": assumptions_of(property),
        "wall_s": wall,
        "violations": violation_lines.len(),
    });
    let evdir = root.join("evidence");
    let _ = std::fs::create_dir_all(&evdir);
    let evpath = evdir.join(format!("{}.json", property));
    if let Err(e) = std::fs::write(&evpath, serde_json::to_string_pretty(&ev).unwrap()) {
        println!("HARNESS-ERROR: cannot write evidence: {}", e);
        exit = 2;
    }
    println!(
        "done {} runs={} wall={:.1}s sim={}s signatures={} nontrivial={} violations={} known={} exit={}",
        property,
        a.runs,
        wall,
        a.sim_us / 1_000_000,
        a.signatures.len(),
        a.nontrivial_signatures.len(),
        violation_lines.len(),
        known_seen.len(),
        exit
    );
    exit
}

fn components(property: &str) -> serde_json::Value {
    let mut real = vec![
        "pgcat src/* incl. main.rs accept loop, signals, reload (built from /repo working tree)".to_string(),
        "tokio runtime/timers/sync (current_thread, paused clock)".to_string(),
        "bb8 0.8.6 (std::time::Instant -> tokio::time::Instant)".to_string(),
        "sqlparser, regex, lru, arc-swap, parking_lot, toml/serde".to_string(),
    ];
    let mut stub = vec![
        "PostgreSQL servers and mirrors (mock, harness/pgsession.rs + mockpg.rs)".to_string(),
        "PostgreSQL clients (scripted)".to_string(),
        "TCP (in-memory streams with latency, segmentation, back-pressure, faults)".to_string(),
        "OS clock, entropy (getrandom), unix signals, config file".to_string(),
    ];
    let mut not_exercised = vec![
        "DNS cache".to_string(),
        "Prometheus exporter".to_string(),
        "SCRAM towards servers".to_string(),
        "TLS towards servers".to_string(),
        "activity-based routing (mini-moka real clock)".to_string(),
        "kernel socket options".to_string(),
        "multi-thread-only races between two awaits".to_string(),
    ];
    if property == "C09" || property == "C03" {
        real.push("tokio-rustls / rustls 0.21 on both ends of the client connection in every fifth run (PgCat's acceptor with the repository's test certificate; scripted clients with a connector that accepts any certificate)".to_string());
    } else {
        not_exercised.push("TLS towards clients (exercised in the C03 and C09 families only)".to_string());
    }
    if property == "C11" {
        stub.push("process memory limit: the simulator's global allocator counts live bytes and ends the run at the allocation that would cross 1 GiB, naming the requesting function".to_string());
    } else {
        not_exercised.push("memory exhaustion (exercised in the C11 family only)".to_string());
    }
    serde_json::json!({ "real": real, "stub": stub, "not_exercised": not_exercised })
}

pub fn level_of(property: &str) -> &'static str {
    match property {
        "C02" => "fault_enumeration",
        _ => "exploration",
    }
}

fn rule_of(property: &str) -> String {
    let fam = match property {
        "C01" => "2-8 clients over pools of 1-3 connections, both pool modes, mixed simple/extended/pipelined/COPY transactions, network swarm (latency, segmentation, short reads, chaos yields); every third run adds client aborts and slow servers; half of the runs include CopyDone/CopyFail outside COPY (also in session mode); a sixth of the runs make a server answer more slowly than the checkout health check waits",
        "C02" => "pool_size 1; client A dirties the session and stops in one of 16 ways (commit, terminate, socket drop idle/in txn/in failed txn/in COPY, cut at a message boundary or PRNG byte offset, vanish mid big reply, malformed message, Bind of unknown statement, idle-in-transaction timeout, statement timeout); the commit stop changes session state inside the transaction block (PREPARE, SET, SET LOCAL, then COMMIT or ROLLBACK); a tenth of the runs make the server answer more slowly than the checkout health check waits while B arrives; client B inherits the connection",
        "C03" => "reply streams with row sizes around the 8196-byte flush threshold, multi-statement, notices, errors, portal suspension, COPY in/out/fail, pipelined batches; segmentation from 1-byte dribble to whole buffer, small send buffers, short reads; simple queries that go on after COPY FROM STDIN; every fifth run over TLS (three quarters of the clients); every eighth run an extended batch is refused at checkout (the only connection is held for longer than connect_timeout) and the same client sends further batches; every fourth run with the statement cache on; every sixteenth run a batch terminated by Flush instead of Sync, read for a while before the Sync follows",
        "C04" => "clients >> pool_size, both modes; every second run adds client aborts at PRNG points, server connection kills, connect timeouts shorter than hold times; capacity probe and admin console after quiescence",
        "C08" => "statement cache on, pool cache sizes {1,2,3,8}, 2-4 clients over 1-3 connections per server; shared names s1..s3 with per-client texts, identical texts shared between clients (attribution by bind parameter), Parse/Describe/Bind/Execute/Close in all groupings, re-Parse after Close, Parse errors, eviction pressure, batches that use two named statements (one prepared earlier, one prepared in the batch), SQL-level PREPARE between transactions (the pooler then wipes the server connection's statements); every fifth run uses statement pairs whose (query, num_params, types) concatenations coincide",
        "C07" => "one shard with 0-3 replicas, with or without a primary, both load-balancing modes; per-server fault scripts (down = refuse + kill connections, hung after accept, rejects startup, black hole), statements that make the server close mid-reply (inside the first relayed piece, or after 8-30 kB of a 32 kB reply) or go quiet for good after part of the reply, admin BAN/UNBAN, ban_time 1-4 s, clients asking for primary/replica/any as sequences of short sessions; every fourth run is the ban-expiry sub-family (admin ban with duration, fault ban with ban_time, UNBAN)",
        "C17" => "the real main.rs select loop: populations of idle, never-used, mid-transaction (shorter and longer than shutdown_timeout), admin and newly arriving clients, clients caught between Parse/Bind/Execute and Sync, CancelRequest connections before the signal; SIGINT, repeated SIGINT, admin SHUTDOWN and SIGTERM at PRNG times; shutdown_timeout 300/1000/3000 ms; both pool modes",
        "C14" => "old/new configuration pairs (unchanged, pool added, pool removed, servers changed, general setting changed, roles of two servers swapped in place, a user's pool_size, the pool mode or the client password changed, new pool whose server is down at reload time; syntactically invalid, seven semantically invalid kinds incl. a capitalised default_role, missing, unreadable, truncated), reload by admin RELOAD, SIGHUP, autoreload, and RELOAD with a SIGHUP at the same moment; workers of an unchanged pool with a transaction straddling the reload, workers of the changed/removed pool, clients arriving after the acknowledgement; yield point before POOLS.store; in a third of the runs the statement cache is on and workers execute after the reload a statement they prepared under a name before it",
        "C18" => "holders (inside a transaction), workers, never-used and failed-login clients, clients kicked at the checkout failure limit, CancelRequest connections, a client that leaves while another client holds the server connection it used last, a replica banned by the operator while clients are busy; clean and abrupt exits, also while holding a server; a barrier at which everybody is parked and the admin reads SHOW CLIENTS/SERVERS/POOLS/LISTS/STATS, and a second reading after everybody left",
        "C09" => "honest clients (MD5 cleartext secret, auth_query secret, trust user, admin) next to attackers: wrong password, replay of a response captured from an honest client of the same run, truncated and oversized responses, a Query in place of the password, EOF and silence in the handshake, the empty-secret answer, unknown user/database, another user's password, admin database with wrong or application credentials; every attacker keeps sending tagged queries afterwards; auth_query runs also change the secret on the servers mid-run and boot with the lookup role unable to log in; a quarter of the runs raise SIGINT while a transaction is open and send logins with valid and invalid credentials afterwards; every fifth run the pooler offers TLS (the repository's test certificate) and three quarters of the clients, honest or not, negotiate it",
        "C10" => "2-5 runners with sleeping statements (simple and extended, bare and inside transactions), idle periods and departures inside a transaction over pools of 1-2 connections per server with 0-2 replicas, both pool modes; 1-3 cancellers sending CancelRequests with the target's key while its statement runs, 0-3 ms and 150-600 ms after its transaction ended, after it left, and with a wrong secret, wrong pid or random key; a late victim with long statements on the reused connections; yield sites after claim and before release",
        "C11" => "1-2 canaries and an admin canary next to 1-5 attackers sharing a pool of 1-2 connections (both modes, statement cache on/off, query parser on/off); hostile bytes before the startup packet (15 classes), in place of the password, after authentication idle / inside a transaction / inside COPY IN / after a Parse / on the admin console (42 payload classes: inconsistent, negative and huge declared lengths, unknown and backend-only types, malformed Parse/Bind/Describe/Close/Execute/Query bodies, valid messages in invalid order, half frames, PRNG bytes); every other run includes lengths that ask for 2 GiB under a simulated 1 GiB memory limit; final probes after the attackers are gone",
        "C13" => "1-3 clients idle in a transaction-mode pool over 1-4 shards, each sending 4-30 simple queries: the seven commands in every documented spelling (letter case, optional quotes, spaces around, optional semicolon), numeric arguments up to 60 digits, near misses (comments before/after, multi-statement forms, the command inside a string literal, wrong operators and values), undocumented spellings (counted, not judged) and ordinary statements in between; both sharding functions, all default roles; every third run loses all servers after start-up; every fifth run the pool is PAUSEd by the operator for the whole run; a quarter of the programs end with a command sent inside a transaction block; every eleventh run in session mode",
        "C06" => "1-3 clients over 1-6 shards (11-13 in every sixteenth run; 0-1 replicas each), both sharding functions, default_shard fixed or random; per client 4-24 autocommit steps drawn from: SET SHARDING KEY, SET SHARD in and out of range, statements without a key (stickiness), the sharding_key and shard_id comment regexes, a literal equated with the automatic sharding key in SELECT/INSERT/UPDATE/DELETE/JOIN with qualified and quoted names, anonymous Parse/Bind/Execute with the key as text or binary int2/int4/int8 parameter, alone or next to another parameter; keys biased to 0, +-1, 32/64-bit extremes and negative values; every fourth run one whole shard is unreachable; every fifth run with the statement cache on and keyed statements prepared under a name, executed by a later Bind after a statement with another parameter layout",
        "C05" => "1-3 clients over one shard with a primary and 1-2 replicas, read/write splitting on, parser on in most runs, all default_role and primary_reads_enabled values; per client 5-26 steps: statements of 10 classes known by construction (plain reads incl. CTE/UNION/VALUES/subqueries, INSERT/UPDATE/DELETE/MERGE/TRUNCATE, DDL, utility statements, data-modifying CTEs, SELECT FOR UPDATE/SHARE also nested, SELECT INTO, multi-statement mixes) in simple and anonymous extended protocol, explicit transactions with 1-3 statements, SET SERVER ROLE and SET PRIMARY READS in between; acceptance by the pooler's parser decided with the same sqlparser version; every fourth run all replicas or the primary are unreachable; a third of the runs have two shards with nobody selecting one; every seventh run the pool is rebuilt by RELOAD while the clients are connected; with and without an automatic sharding key; every fifth run with the statement cache on and statements prepared under a name, executed by a later Bind after another statement",
        "C19" => "1-2 clients, table_access with two listed tables, one intercept rule, query logger on/off, configured globally or per pool, statement cache on/off; statements mentioning a listed or unlisted relation in 20 positions (FROM, JOIN, subqueries, CTE, INSERT/UPDATE/DELETE target, USING, INSERT..SELECT, EXISTS, UPDATE..FROM, COPY table, COPY (query), TRUNCATE, TABLE statement and TABLE expression in INSERT and UNION, MERGE..USING, FROM ONLY) and 9 spellings (case, quotes, schema and database qualification), sent alone, in multi-statement messages, in Parse..Sync batches with several Parses, inside transactions (simple and extended), and as a named Parse executed by a later Bind; the intercepted query in four spellings; every fourth run with plugins disabled; every sixth run the plugins are switched on by RELOAD while the clients are connected and idle",
        "C20" => "1-3 clients without pool contention over a primary (and optional replica) with 0-3 mirrors attached to either; simple, extended and transactional requests with known server-side durations; per-mirror fault scripts: down from the start, refuse + connection kills (fin/rst) with or without recovery, connect hang, black hole after accept, slow replies (50-2000 ms), startup rejected, every statement answered with an error, connection kills at PRNG times; a quarter of the runs without mirrors (control), a quarter with healthy mirrors; calm network in 70% of the runs (latency oracle), swarm otherwise",
        "C15" => "a base configuration (1-3 shards, primary and optional replica, 1-2 users) with at most one of 42 deviations: shard ids starting at 1, with a gap, non-numeric, huge, negative, with leading zero; two primaries, no primary, duplicate server, the same server in two shards, no servers; default_shard beyond range / last / random / random_healthy / bogus; default_role bogus, capitalised, or replica without replicas; user without password, incomplete auth_query, duplicate user names; min_pool_size above pool_size, pool_size 0; idle_timeout, server_lifetime, connect_timeout, autoreload, healthcheck_timeout, ban_time or shutdown_timeout of 0; invalid regexes; plugins or read/write splitting without parser; mirror of an absent server; bogus sharding function and pool mode; unqualified automatic sharding key. Booted through the real main; when accepted, one probe client per (user, shard id written in the file, role), one for the default shard, and an admin client reading six SHOW commands",
        "C16" => "PAUSE/RESUME cycles (global or per pool) by an admin client; workers running throughout, clients that are idle when the pause begins, clients arriving after the PAUSE acknowledgement, mid-transaction clients, clients whose batch began before the pause and whose Sync arrives during it; both pool modes; random subset of the yield sites inside wait_paused and between wait_paused and checkout; RESUME at PRNG times including right after a held client's message went out; in a third of the cycles the admin reloads a file with an unrelated change while the pool is paused",
        "C12" => "2-5 clients sharing 1-2 server connections; startup parameter sets and SET sequences of tracked and untracked parameters; every fourth run uses hostile values (quotes, backslashes, non-ASCII, empty); SET and SET LOCAL inside transactions that are committed or rolled back; every eighth run in session mode with an idle-in-transaction timeout that takes the server away from a client sitting in an open transaction",
        _ => "see DESIGN.md",
    };
    format!("{}; one run = one seeded execution of the real PgCat in the simulator; a run is non-trivial when at least one of the property's required probes fired; distinct = distinct interleaving signature (hash of the (socket, event kind) sequence at PgCat's sockets)", fam)
}

fn assumptions_of(property: &str) -> Vec<String> {
    let mut v = vec![
        "PostgreSQL is a mock: only the facts PgCat branches on (ReadyForQuery status, SET/PREPARE command tags, ParameterStatus, CopyIn/CopyOut responses, ErrorResponse fields, extended-protocol error-skips-to-Sync) are modelled, from the protocol documentation".to_string(),
        "single-threaded runtime: tasks interleave only at awaits that return Pending plus the guarded yield points; sub-await races of the multi-thread runtime are not explored".to_string(),
        "wall clock is monotone; TCP delivers in order without loss within a connection".to_string(),
        "a clean batch is evidence, not proof: schedules and faults are sampled by seeded search, not enumerated".to_string(),
    ];
    if property == "C02" {
        v.push("plain SET inside an explicit transaction block is not generated (PgCat documents it as untracked; the property is worded 'outside a transaction')".to_string());
    }
    v
}

fn same_violation(v: &Verdict, want: &Violation) -> bool {
    v.violations.iter().any(|x| x.property == want.property && x.oracle == want.oracle && x.fingerprint == want.fingerprint)
}

fn reproduces(spec: &Spec, want: &Violation) -> bool {
    match run_child(spec) {
        ChildResult::Verdict(v) => same_violation(&v, want),
        _ => false,
    }
}

/// Shrink the spec while the same (property, oracle, fingerprint) persists.
pub fn minimise(spec: &Spec, want: &Violation) -> (Spec, bool) {
    if !reproduces(spec, want) {
        return (spec.clone(), false);
    }
    let mut cur = spec.clone();
    let mut attempts = 0;
    let max_attempts = 250;
    let mut progress = true;
    while progress && attempts < max_attempts {
        progress = false;
        // calm the network and the scheduler
        let mut cands: Vec<Spec> = Vec::new();
        if cur.net.chaos > 0.0 {
            let mut c = cur.clone();
            c.net.chaos = 0.0;
            cands.push(c);
        }
        if cur.net.seg != "whole" || cur.net.short_reads {
            let mut c = cur.clone();
            c.net.seg = "whole".into();
            c.net.short_reads = false;
            cands.push(c);
        }
        if cur.net.latency_ms != (0, 0) || cur.net.jitter_ms != 0 {
            let mut c = cur.clone();
            c.net.latency_ms = (0, 0);
            c.net.jitter_ms = 0;
            cands.push(c);
        }
        if cur.net.sndbuf < 262144 {
            let mut c = cur.clone();
            c.net.sndbuf = 262144;
            cands.push(c);
        }
        if !cur.yield_sites.is_empty() {
            let mut c = cur.clone();
            c.yield_sites.clear();
            cands.push(c);
        }
        // drop actions
        for i in 0..cur.actions.len() {
            let mut c = cur.clone();
            c.actions.remove(i);
            cands.push(c);
        }
        // drop clients
        for i in 0..cur.clients.len() {
            if cur.clients.len() > 1 {
                let mut c = cur.clone();
                c.clients.remove(i);
                cands.push(c);
            }
        }
        // drop steps (from the end first)
        for ci in 0..cur.clients.len() {
            let n = cur.clients[ci].steps.len();
            for si in (0..n).rev() {
                let mut c = cur.clone();
                c.clients[ci].steps.remove(si);
                cands.push(c);
            }
        }
        for c in cands {
            if attempts >= max_attempts {
                break;
            }
            attempts += 1;
            if reproduces(&c, want) {
                cur = c;
                progress = true;
                break;
            }
        }
    }
    // must reproduce twice more, in fresh processes
    let ok = reproduces(&cur, want) && reproduces(&cur, want);
    if ok {
        (cur, true)
    } else {
        (spec.clone(), reproduces(spec, want) && reproduces(spec, want))
    }
}

pub fn write_replay(root: &Path, prop: &str, spec: &Spec, v: &Violation) -> PathBuf {
    let dir = root.join("replays");
    let _ = std::fs::create_dir_all(&dir);
    let mut s = spec.clone();
    s.expect = Some(v.clone());
    s.trace = false;
    let fp_clean: String = v.fingerprint.chars().map(|c| if c.is_ascii_alphanumeric() { c } else { '_' }).collect();
    let path = dir.join(format!("{}-{}-{}.json", prop, spec.seed, fp_clean.chars().take(60).collect::<String>()));
    let _ = std::fs::write(&path, serde_json::to_string_pretty(&s).unwrap());
    path
}

/// `simharness replay <file>`: re-execute a replay file; exit 1 + VIOLATION line if it reproduces.
pub fn replay(path: &str, trace: bool) -> i32 {
    let text = match std::fs::read_to_string(path) {
        Ok(t) => t,
        Err(e) => {
            println!("HARNESS-ERROR: cannot read {}: {}", path, e);
            return 2;
        }
    };
    let mut spec: Spec = match serde_json::from_str(&text) {
        Ok(s) => s,
        Err(e) => {
            println!("HARNESS-ERROR: cannot parse {}: {}", path, e);
            return 2;
        }
    };
    spec.trace = trace;
    match run_child(&spec) {
        ChildResult::Verdict(v) => {
            if trace {
                for l in &v.trace {
                    println!("{}", l);
                }
            }
            println!("summary: {} sim_ms={} digest={} panics={}", v.summary, v.sim_us / 1000, v.digest, v.panics.len());
            for x in &v.violations {
                println!("violation: property={} oracle={} fingerprint={} seq={} {}", x.property, x.oracle, x.fingerprint, x.seq, x.msg);
            }
            match &spec.expect {
                Some(want) => {
                    if same_violation(&v, want) {
                        println!("VIOLATION property={} replay={}", want.property, path);
                        1
                    } else {
                        println!("replay did not reproduce the expected violation {}", want.fingerprint);
                        0
                    }
                }
                None => {
                    if let Some(x) = v.violations.first() {
                        println!("VIOLATION property={} replay={}", x.property, path);
                        1
                    } else {
                        0
                    }
                }
            }
        }
        ChildResult::ConfigRejected => {
            println!("PgCat rejected the configuration at startup (exit 78)");
            0
        }
        ChildResult::HarnessError(e) => {
            println!("HARNESS-ERROR: {}", e);
            2
        }
    }
}

/// Determinism self-test: many seeds, each run twice in separate processes, full event-log
/// digests must be identical.
pub fn selftest(n: u64, workers: usize) -> i32 {
    let seed: u64 = std::env::var("VERIF_SEED").ok().and_then(|s| s.parse().ok()).unwrap_or(DEFAULT_SEED);
    let next = Arc::new(AtomicUsize::new(0));
    let diffs = Arc::new(Mutex::new(Vec::<String>::new()));
    let errors = Arc::new(Mutex::new(Vec::<String>::new()));
    let digests = Arc::new(Mutex::new(BTreeMap::<u64, String>::new()));
    let started = Instant::now();
    let mut hs = Vec::new();
    for _ in 0..workers {
        let next = next.clone();
        let diffs = diffs.clone();
        let errors = errors.clone();
        let digests = digests.clone();
        hs.push(std::thread::spawn(move || loop {
            let i = next.fetch_add(1, Ordering::SeqCst) as u64;
            if i >= n {
                break;
            }
            let spec = crate::gen::generate("SELFTEST", "quick", seed, i);
            let a = run_child(&spec);
            let b = run_child(&spec);
            match (a, b) {
                (ChildResult::Verdict(x), ChildResult::Verdict(y)) => {
                    if x.digest != y.digest || x.events != y.events || x.sim_us != y.sim_us {
                        diffs.lock().unwrap().push(format!("spec {} ({} {}): {} vs {}", i, spec.property, spec.family, x.digest, y.digest));
                    }
                    digests.lock().unwrap().insert(i, x.digest.clone());
                }
                (ChildResult::ConfigRejected, ChildResult::ConfigRejected) => {}
                (x, y) => errors.lock().unwrap().push(format!("spec {}: {:?} / {:?}", i, matches!(x, ChildResult::Verdict(_)), matches!(y, ChildResult::Verdict(_)))),
            }
        }));
    }
    for h in hs {
        let _ = h.join();
    }
    let diffs = diffs.lock().unwrap();
    let errors = errors.lock().unwrap();
    let dg = digests.lock().unwrap();
    let mut all = 0xcbf29ce484222325u64;
    for (i, d) in dg.iter() {
        all ^= simcore::rng::fnv(format!("{}{}", i, d).as_bytes());
    }
    println!("selftest: {} specs x 2 runs, workers={}, {} digest differences, {} errors, combined digest {:016x}, {:.1}s", n, workers, diffs.len(), errors.len(), all, started.elapsed().as_secs_f64());
    for d in diffs.iter().take(10) {
        println!("  DIFF {}", d);
    }
    for e in errors.iter().take(10) {
        println!("  ERROR {}", e);
    }
    if !diffs.is_empty() || !errors.is_empty() {
        2
    } else {
        0
    }
}
