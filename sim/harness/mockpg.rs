//! Mock PostgreSQL servers: one listener per configured server/mirror address. Protocol and
//! session semantics live in `pgsession`; this file is the I/O wrapper, the per-connection
//! record keeping and the server-side fault behaviours.

use crate::pgsession::PgSession;
use crate::proto::{self, Framer, Msg};
use crate::spec::HostSpec;
use crate::sqlmini;
use crate::world::{self, BackendConn, Behaviour, CancelRec, HostRt, LiveSession, StmtEntry, Unit, HIST, HOSTS, LIVE};
use simcore::net::TcpStream;
use simcore::rng::Rng;
use std::sync::Arc;
use std::time::Duration;
use tokio::io::{AsyncReadExt, AsyncWriteExt};

pub fn start_host(spec: HostSpec, index: usize) {
    let addr = spec.addr.clone();
    let listener = simcore::net::world::listen(&addr);
    let (btx, _) = tokio::sync::watch::channel(Behaviour::Normal);
    let (ktx, _) = tokio::sync::watch::channel((0u64, false));
    let mut shadow = std::collections::BTreeMap::new();
    for (u, p) in &spec.shadow {
        shadow.insert(u.clone(), format!("md5{}", proto::md5_hex(format!("{}{}", p, u).as_bytes())));
    }
    HOSTS.lock().insert(addr.clone(), HostRt { spec, behaviour: btx, kill: ktx, next_pid: 1000 * (index as i32 + 1), shadow, index });
    tokio::spawn(async move {
        loop {
            let s = listener.accept().await;
            let addr = addr.clone();
            tokio::spawn(async move {
                conn_task(addr, s).await;
            });
        }
    });
}

fn close_conn(idx: usize, how: &str) {
    let seq = simcore::log::world(|| format!("mock.close {} {}", idx, how));
    let mut h = HIST.lock();
    let c = &mut h.backend_conns[idx];
    if c.closed_seq.is_none() {
        c.closed_seq = Some(seq);
        c.closed_us = Some(simcore::clock::now_us());
        c.close_how = how.to_string();
    }
}

enum ReadErr {
    Eof,
    Reset,
    Garbage(String),
    Killed(bool),
}

async fn read_msg(s: &mut TcpStream, f: &mut Framer, kill: &mut tokio::sync::watch::Receiver<(u64, bool)>) -> Result<Msg, ReadErr> {
    loop {
        match f.next() {
            Ok(Some(m)) => return Ok(m),
            Ok(None) => {}
            Err(e) => return Err(ReadErr::Garbage(e)),
        }
        let mut buf = [0u8; 16384];
        tokio::select! {
            biased;
            r = kill.changed() => {
                if r.is_ok() {
                    let rst = kill.borrow().1;
                    return Err(ReadErr::Killed(rst));
                }
                // sender gone: never happens while the world lives
                std::future::pending::<()>().await;
            }
            r = s.read(&mut buf) => {
                match r {
                    Ok(0) => return Err(ReadErr::Eof),
                    Ok(n) => f.push(&buf[..n]),
                    Err(_) => return Err(ReadErr::Reset),
                }
            }
        }
    }
}

async fn conn_task(host: String, mut s: TcpStream) {
    let (spec, mut beh_rx, mut kill_rx, pid, index) = {
        let mut hs = HOSTS.lock();
        let h = hs.get_mut(&host).unwrap();
        h.next_pid += 1;
        (h.spec.clone(), h.behaviour.subscribe(), h.kill.subscribe(), h.next_pid, h.index)
    };
    let opened_seq = simcore::log::world(|| format!("mock.accept {} pid {}", host, pid));
    let mut rng = Rng::stream(&format!("mock/{}/{}", host, pid));
    let key = rng.next_u64() as i32;
    let conn_idx = {
        let mut h = HIST.lock();
        h.backend_conns.push(BackendConn { host: host.clone(), pid, key, opened_seq, opened_us: simcore::clock::now_us(), kind: "session".into(), net_conn: s.conn_id(), ..Default::default() });
        h.backend_conns.len() - 1
    };
    let _ = index;

    // ---- startup packet(s) ----
    let params: Vec<(String, String)>;
    loop {
        let mut lenb = [0u8; 4];
        if s.read_exact(&mut lenb).await.is_err() {
            HIST.lock().backend_conns[conn_idx].kind = "garbage".into();
            close_conn(conn_idx, "eof");
            return;
        }
        let len = i32::from_be_bytes(lenb);
        if !(8..=10000).contains(&len) {
            HIST.lock().backend_conns[conn_idx].kind = "garbage".into();
            close_conn(conn_idx, "garbage");
            return;
        }
        let mut rest = vec![0u8; len as usize - 4];
        if s.read_exact(&mut rest).await.is_err() {
            HIST.lock().backend_conns[conn_idx].kind = "garbage".into();
            close_conn(conn_idx, "eof");
            return;
        }
        let code = i32::from_be_bytes([rest[0], rest[1], rest[2], rest[3]]);
        if code == proto::SSL_REQUEST {
            if s.write_all(b"N").await.is_err() {
                close_conn(conn_idx, "reset");
                return;
            }
            HIST.lock().backend_conns[conn_idx].kind = "ssl_only".into();
            continue;
        }
        if code == proto::CANCEL_REQUEST && rest.len() >= 12 {
            let tpid = i32::from_be_bytes([rest[4], rest[5], rest[6], rest[7]]);
            let tkey = i32::from_be_bytes([rest[8], rest[9], rest[10], rest[11]]);
            let seq = simcore::log::world(|| format!("mock.cancel {} pid {} key {}", host, tpid, tkey));
            let mut rec = CancelRec { seq, us: simcore::clock::now_us(), host: host.clone(), pid: tpid, key: tkey, ..Default::default() };
            {
                let mut live = LIVE.lock();
                if let Some(ls) = live.get_mut(&(host.clone(), tpid)) {
                    if ls.key == tkey {
                        rec.matched = Some(ls.conn);
                        rec.hit_running = ls.running;
                        rec.running_tags = ls.running_tags.clone();
                        if ls.running {
                            ls.cancelled = true;
                            ls.cancel.notify_one();
                        }
                    }
                }
            }
            let mut h = HIST.lock();
            h.backend_conns[conn_idx].kind = "cancel".into();
            h.cancels.push(rec);
            drop(h);
            close_conn(conn_idx, "cancel");
            return;
        }
        if code != proto::PROTO_V3 {
            HIST.lock().backend_conns[conn_idx].kind = "garbage".into();
            let _ = s.write_all(&proto::error_response("FATAL", "0A000", "unsupported frontend protocol").bytes()).await;
            close_conn(conn_idx, "garbage");
            return;
        }
        let mut ps = Vec::new();
        let mut r = proto::Reader::new(&rest[4..]);
        loop {
            let k = match r.cstr() {
                Some(k) if !k.is_empty() => k,
                _ => break,
            };
            let v = r.cstr().unwrap_or_default();
            ps.push((k, v));
        }
        params = ps;
        break;
    }
    let getp = |k: &str| params.iter().find(|(a, _)| a == k).map(|(_, v)| v.clone()).unwrap_or_default();
    let user = getp("user");
    {
        let mut h = HIST.lock();
        let c = &mut h.backend_conns[conn_idx];
        c.user = user.clone();
        c.database = getp("database");
        c.application_name = getp("application_name");
        c.kind = "session".into();
    }

    // ---- server-side behaviours at startup ----
    loop {
        let b = beh_rx.borrow().clone();
        match b {
            Behaviour::Silent => {
                world::fault("server_silent_at_startup");
                // hung server: swallow whatever arrives, never answer
                let mut buf = [0u8; 4096];
                tokio::select! {
                    _ = beh_rx.changed() => continue,
                    _ = kill_rx.changed() => { close_conn(conn_idx, "killed"); return; }
                    r = s.read(&mut buf) => {
                        match r {
                            Ok(0) | Err(_) => { close_conn(conn_idx, "silent"); return; }
                            Ok(_) => continue,
                        }
                    }
                }
            }
            Behaviour::RejectStartup => {
                world::fault("server_reject_startup");
                let _ = s.write_all(&proto::error_response("FATAL", "57P03", "the database system is starting up").bytes()).await;
                close_conn(conn_idx, "fatal");
                return;
            }
            _ => break,
        }
    }

    // ---- authentication ----
    if spec.auth == "md5" {
        let mut salt = [0u8; 4];
        rng.fill(&mut salt);
        if s.write_all(&proto::auth_md5(salt).bytes()).await.is_err() {
            close_conn(conn_idx, "reset");
            return;
        }
        let mut f = Framer::default();
        let m = match read_msg(&mut s, &mut f, &mut kill_rx).await {
            Ok(m) => m,
            Err(_) => {
                close_conn(conn_idx, "eof");
                return;
            }
        };
        let ok = m.ty == b'p'
            && match spec.users.get(&user) {
                Some(pw) => m.body == proto::md5_password_body(&user, pw, &salt),
                None => false,
            };
        if !ok {
            world::probe("mock_auth_failed");
            let _ = s.write_all(&proto::error_response("FATAL", "28P01", &format!("password authentication failed for user \"{}\"", user)).bytes()).await;
            close_conn(conn_idx, "auth_failed");
            return;
        }
    } else if !spec.users.contains_key(&user) {
        let _ = s.write_all(&proto::error_response("FATAL", "28000", &format!("role \"{}\" does not exist", user)).bytes()).await;
        close_conn(conn_idx, "auth_failed");
        return;
    }

    let mut sess = PgSession::new(pid);
    sess.shadow = HOSTS.lock().get(&host).map(|h| h.shadow.clone()).unwrap_or_default();
    if let Err(e) = sess.apply_startup(&params) {
        let _ = s.write_all(&proto::error_response("FATAL", "22023", &e).bytes()).await;
        close_conn(conn_idx, "fatal");
        return;
    }
    let mut hello = proto::auth_ok().bytes();
    for m in sess.startup_status() {
        hello.extend(m.bytes());
    }
    hello.extend(proto::backend_key(pid, key).bytes());
    hello.extend(proto::ready(b'I').bytes());
    if s.write_all(&hello).await.is_err() {
        close_conn(conn_idx, "reset");
        return;
    }
    let authed_seq = simcore::log::world(|| format!("mock.authed {} pid {} user {}", host, pid, user));
    {
        let mut h = HIST.lock();
        h.backend_conns[conn_idx].authed_seq = Some(authed_seq);
        h.backend_conns[conn_idx].authed_us = Some(simcore::clock::now_us());
        let db = h.backend_conns[conn_idx].database.clone();
        let count = h
            .backend_conns
            .iter()
            .filter(|c| c.host == host && c.user == user && c.database == db && c.kind == "session" && c.authed_seq.is_some() && c.closed_seq.is_none() && simcore::net::world::pgcat_side_open(c.net_conn))
            .count();
        h.authed_samples.push((authed_seq, host.clone(), user.clone(), db, count));
    }
    let cancel = Arc::new(tokio::sync::Notify::new());
    LIVE.lock().insert((host.clone(), pid), LiveSession { key, conn: conn_idx, running: false, running_tags: vec![], cancel: cancel.clone(), cancelled: false });

    // ---- main loop ----
    let mut framer = Framer { pg_frontend_rules: true, ..Default::default() };
    let mut unit_open = false;
    let mut pending_out: Vec<u8> = Vec::new();
    let how: &str;
    'main: loop {
        let m = match read_msg(&mut s, &mut framer, &mut kill_rx).await {
            Ok(m) => m,
            Err(ReadErr::Eof) => {
                how = "eof";
                break;
            }
            Err(ReadErr::Reset) => {
                how = "reset";
                break;
            }
            Err(ReadErr::Killed(rst)) => {
                world::fault("server_conn_killed");
                if rst {
                    s.set_abort_on_drop(true);
                }
                how = "killed";
                break;
            }
            Err(ReadErr::Garbage(e)) => {
                simcore::log::world(|| format!("mock.garbage {} pid {} {}", host, pid, e));
                // whatever was held back for this batch goes out first, as a real server's buffer would
                let mut out = std::mem::take(&mut pending_out);
                out.extend(proto::error_response("FATAL", "08P01", &format!("invalid message: {}", e)).bytes());
                // the peer may itself be blocked writing the rest of its garbage: do not wait for it
                let _ = tokio::time::timeout(Duration::from_millis(200), s.write_all(&out)).await;
                how = "fatal";
                break;
            }
        };
        // hung server: stop processing until behaviour changes
        loop {
            let b = beh_rx.borrow().clone();
            if b != Behaviour::Silent {
                break;
            }
            world::fault("server_silent");
            tokio::select! {
                _ = beh_rx.changed() => {},
                _ = kill_rx.changed() => { how = "killed"; break 'main; }
            }
        }
        let seq = simcore::log::world(|| format!("mock.msg {} pid {} {} {}", host, pid, m.ty as char, m.body.len()));
        let msg_us = simcore::clock::now_us();
        let mbytes = m.bytes();
        {
            let mut h = HIST.lock();
            let c = &mut h.backend_conns[conn_idx];
            // copy messages outside COPY are ignored by the server and produce nothing: such a
            // message is a request unit of its own, not the beginning of the next client's request
            let ignored_alone = !unit_open && matches!(m.ty, b'd' | b'c' | b'f') && sess.copy_in.is_none();
            if !unit_open {
                c.units.push(Unit { first_seq: seq, status_before: sess.txn, ..Default::default() });
                unit_open = true;
            }
            let u = c.units.last_mut().unwrap();
            u.last_seq = seq;
            u.in_bytes.extend_from_slice(&mbytes);
            u.in_types.push(m.ty);
            u.tags.extend(sqlmini::find_tags(&m.body));
            if ignored_alone {
                u.rfq = sess.txn;
                unit_open = false;
            }
        }
        if m.ty == b'X' {
            how = "terminate";
            break;
        }

        // directives that concern the wrapper
        let sql_for_directives: Option<String> = match m.ty {
            b'Q' => proto::Reader::new(&m.body).cstr(),
            b'E' => {
                let portal = proto::Reader::new(&m.body).cstr().unwrap_or_default();
                if sess.ext_error {
                    None
                } else {
                    sess.portals.get(&portal).map(|p| p.sql.clone())
                }
            }
            _ => None,
        };
        let mut cancelled = false;
        let mut close_after: Option<(usize, bool)> = None;
        let mut stall_after: Option<usize> = None;
        if let Some(sql) = &sql_for_directives {
            if sess.copy_in.is_none() {
                if sqlmini::has_directive(sql, "sim_hang") {
                    world::fault("server_hang_in_statement");
                    // never answer; leave when the peer goes away or the host is killed
                    let mut buf = [0u8; 4096];
                    loop {
                        tokio::select! {
                            _ = kill_rx.changed() => { how = "killed"; break 'main; }
                            r = s.read(&mut buf) => {
                                match r {
                                    Ok(0) | Err(_) => { how = "eof"; break 'main; }
                                    Ok(_) => {}
                                }
                            }
                        }
                    }
                }
                if let Some(ms) = sqlmini::directive(sql, "sim_sleep") {
                    {
                        let mut live = LIVE.lock();
                        if let Some(ls) = live.get_mut(&(host.clone(), pid)) {
                            ls.running = true;
                            ls.cancelled = false;
                            ls.running_tags = sqlmini::find_tags(sql.as_bytes());
                        }
                    }
                    tokio::select! {
                        _ = tokio::time::sleep(Duration::from_millis(ms)) => {}
                        _ = cancel.notified() => { cancelled = true; }
                        _ = kill_rx.changed() => { how = "killed"; break 'main; }
                    }
                    let mut live = LIVE.lock();
                    if let Some(ls) = live.get_mut(&(host.clone(), pid)) {
                        ls.running = false;
                        ls.running_tags.clear();
                        if ls.cancelled {
                            cancelled = true;
                        }
                    }
                }
                if let Some(k) = sqlmini::directive(sql, "sim_close") {
                    close_after = Some((k as usize, sqlmini::has_directive(sql, "sim_rst")));
                }
                if let Some(k) = sqlmini::directive(sql, "sim_stall") {
                    stall_after = Some(k as usize);
                }
            }
        }

        let nstmts_before = sess.stmts.len();
        // an erroring server: the statement text gains the directive that makes it fail
        let m = if *beh_rx.borrow() == Behaviour::Errors && (m.ty == b'Q' || m.ty == b'P') {
            let mut body = m.body.clone();
            let mut nul = body.iter().position(|b| *b == 0);
            if m.ty == b'P' {
                nul = nul.and_then(|i| body[i + 1..].iter().position(|b| *b == 0).map(|j| i + 1 + j));
            }
            if let Some(i) = nul {
                let ins = b" /* sim_error() */";
                body.splice(i..i, ins.iter().cloned());
            }
            Msg { ty: m.ty, body }
        } else {
            m
        };
        let outcome = sess.handle(&m, seq, cancelled);
        // move statement records into the history
        if sess.stmts.len() > nstmts_before || !sess.stmts.is_empty() {
            let bans = crate::pgcat_api::banned_hosts();
            world::record_bans(&bans);
            let us = simcore::clock::now_us();
            let mut h = HIST.lock();
            for rec in sess.stmts.drain(..) {
                let mut sh = simcore::rng::fnv(host.as_bytes()) ^ (rec.snap.txn as u64) << 8 ^ (rec.tags.first().map(|t| t.c as u64).unwrap_or(0)) << 16;
                sh ^= (rec.snap.in_copy as u64) << 40 ^ (rec.snap.gucs.len() as u64) << 44 ^ (rec.snap.prepared.len() as u64) << 52;
                h.state_hashes.insert(sh);
                h.stmts.push(StmtEntry { conn: conn_idx, rec, us, start_us: msg_us, bans: bans.clone() });
                let si = h.stmts.len() - 1;
                if let Some(u) = h.backend_conns[conn_idx].units.last_mut() {
                    u.stmt_idx.push(si);
                }
            }
        }
        let beh_now = beh_rx.borrow().clone();
        if let Behaviour::Slow(ms) = beh_now {
            world::fault("server_slow_reply");
            tokio::time::sleep(Duration::from_millis(ms)).await;
        }
        let mut bytes = Vec::new();
        let mut rfq: Option<u8> = None;
        for om in &outcome.msgs {
            if om.ty == b'Z' {
                rfq = om.body.first().cloned();
            }
            bytes.extend(om.bytes());
        }
        if let Some(k) = stall_after {
            // the first k bytes of the reply, then nothing more, ever
            world::fault("server_stall_mid_reply");
            let k = k.min(bytes.len());
            let mut out = std::mem::take(&mut pending_out);
            out.extend_from_slice(&bytes[..k]);
            let _ = s.write_all(&out).await;
            {
                let mut h = HIST.lock();
                if let Some(u) = h.backend_conns[conn_idx].units.last_mut() {
                    u.out_bytes.extend_from_slice(&bytes[..k]);
                }
            }
            let mut buf = [0u8; 4096];
            loop {
                tokio::select! {
                    _ = kill_rx.changed() => { how = "killed"; break 'main; }
                    r = s.read(&mut buf) => {
                        match r {
                            Ok(0) | Err(_) => { how = "eof"; break 'main; }
                            Ok(_) => {}
                        }
                    }
                }
            }
        }
        if let Some((k, rst)) = close_after {
            world::fault("server_close_mid_reply");
            let k = k.min(bytes.len());
            let mut out = std::mem::take(&mut pending_out);
            out.extend_from_slice(&bytes[..k]);
            let _ = s.write_all(&out).await;
            {
                let mut h = HIST.lock();
                if let Some(u) = h.backend_conns[conn_idx].units.last_mut() {
                    u.out_bytes.extend_from_slice(&bytes[..k]);
                }
            }
            if rst {
                s.set_abort_on_drop(true);
            }
            how = "killed";
            break;
        }
        if !bytes.is_empty() {
            {
                let mut h = HIST.lock();
                if let Some(u) = h.backend_conns[conn_idx].units.last_mut() {
                    u.out_bytes.extend_from_slice(&bytes);
                    if let Some(st) = rfq {
                        u.rfq = st;
                    }
                }
            }
            pending_out.extend_from_slice(&bytes);
        }
        // PostgreSQL keeps the replies to Parse/Bind/Describe/Execute/Close in its output buffer
        // until Sync or Flush (or until the 8 kB buffer is full, or it has to wait for COPY data)
        let hold = matches!(m.ty, b'P' | b'B' | b'D' | b'E' | b'C') && pending_out.len() < 8192 && sess.copy_in.is_none() && !outcome.close;
        if !hold && !pending_out.is_empty() {
            let out = std::mem::take(&mut pending_out);
            if s.write_all(&out).await.is_err() {
                how = "reset";
                break;
            }
        }
        if rfq.is_some() {
            unit_open = false;
        }
        if outcome.close {
            how = "fatal";
            break;
        }
    }
    LIVE.lock().remove(&(host.clone(), pid));
    close_conn(conn_idx, how);
    drop(s);
}

/// Apply a host-level action from the scenario.
pub fn set_behaviour(host: &str, b: Behaviour) {
    simcore::log::world(|| format!("mock.behaviour {} {:?}", host, b));
    if let Some(h) = HOSTS.lock().get(host) {
        let _ = h.behaviour.send_replace(b);
    }
}

pub fn kill_conns(host: &str, rst: bool) {
    simcore::log::world(|| format!("mock.kill_conns {} rst={}", host, rst));
    if let Some(h) = HOSTS.lock().get(host) {
        let v = h.kill.borrow().0 + 1;
        let _ = h.kill.send_replace((v, rst));
    }
}

pub fn set_shadow(host: &str, user: &str, password: &str) {
    if let Some(h) = HOSTS.lock().get_mut(host) {
        h.shadow.insert(user.to_string(), format!("md5{}", proto::md5_hex(format!("{}{}", password, user).as_bytes())));
    }
}
