//! Entropy seam: the process-wide `getrandom` symbol. std's `HashMap` `RandomState` keys (and
//! anything else that asks libc for entropy) come from here, so hash-map iteration order is a
//! function of the run seed instead of differing per process.

use std::sync::atomic::{AtomicU64, Ordering};

static STATE: AtomicU64 = AtomicU64::new(0x243F_6A88_85A3_08D3);

pub fn seed(seed: u64) {
    STATE.store(seed ^ 0x1319_8A2E_0370_7344, Ordering::SeqCst);
}

fn next() -> u64 {
    let mut s = STATE.load(Ordering::SeqCst);
    s = s.wrapping_add(0x9E37_79B9_7F4A_7C15);
    STATE.store(s, Ordering::SeqCst);
    let mut z = s;
    z = (z ^ (z >> 30)).wrapping_mul(0xBF58_476D_1CE4_E5B9);
    z = (z ^ (z >> 27)).wrapping_mul(0x94D0_49BB_1331_11EB);
    z ^ (z >> 31)
}

/// # Safety
/// Called by libc users with a valid buffer of `len` bytes.
#[no_mangle]
pub unsafe extern "C" fn getrandom(buf: *mut u8, len: usize, _flags: u32) -> isize {
    let mut i = 0;
    while i < len {
        let v = next().to_le_bytes();
        let mut j = 0;
        while j < 8 && i < len {
            *buf.add(i) = v[j];
            i += 1;
            j += 1;
        }
    }
    len as isize
}
