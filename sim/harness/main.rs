//! simharness: runs the real PgCat `main()` inside the deterministic simulator.
#![allow(unexpected_cfgs)]
#![allow(dead_code)]

#[allow(unused_imports, clippy::all)]
#[path = "/repo/src/main.rs"]
mod pgcat_main;

mod entropy;

fn main() {
    let seed: u64 = std::env::var("SIMH_SEED").ok().and_then(|s| s.parse().ok()).unwrap_or(1);
    entropy::seed(seed);
    simcore::rt::init(seed);
    std::env::set_var("CONFIG_FILE", "/sim/pgcat.toml");
    std::env::set_var("LOG_LEVEL", "error");
    simcore::fs::set("/sim/pgcat.toml", simcore::fs::Content::Data(b"[general]\nhost=\"0.0.0.0\"\nport=6432\nadmin_username=\"admin\"\nadmin_password=\"admin\"\nworker_threads=1\n[pools.db]\n[pools.db.users.0]\nusername=\"u\"\npassword=\"p\"\npool_size=2\n[pools.db.shards.0]\ndatabase=\"db\"\nservers=[[\"pg0\",5432,\"primary\"]]\n".to_vec()));
    simcore::rt::set_world_start(Box::new(|| {
        tokio::spawn(async {
            simcore::net::world::wait_pgcat_listening().await;
            println!("listening at t={}us seq={}", simcore::clock::now_us(), simcore::log::current_seq());
            tokio::time::sleep(std::time::Duration::from_secs(120)).await;
            println!("t={}us digest={:x}", simcore::clock::now_us(), simcore::log::digest());
            std::process::exit(0);
        });
    }));
    let r = pgcat_main::verif_main();
    println!("main returned {:?}", r.is_ok());
}
