//! simharness: runs the real PgCat `main()` inside the deterministic simulator.
//!
//! Parent mode (`simharness check <Cxx> <quick|thorough>`, `replay <file>`, `selftest`,
//! `gen <Cxx> <tier> <idx>`): generates specs, runs each one in a fresh child process, and
//! aggregates. Child mode (env SIMH_CHILD=1, spec JSON on stdin, no argv so that PgCat's own
//! clap parser sees none): one spec -> one execution -> one verdict.
#![allow(unexpected_cfgs)]
#![allow(dead_code)]
#![allow(clippy::too_many_arguments)]

#[allow(unused_imports, clippy::all)]
#[path = "/repo/src/main.rs"]
mod pgcat_main;

mod entropy;
mod gen;
mod memlimit;
mod mockpg;
mod oracles;
mod parent;
mod pgcat_api;
mod pgsession;
mod proto;
mod refmodel;
mod runner;
mod sclient;
mod spec;
mod sqlmini;
mod world;

#[global_allocator]
static GLOBAL: memlimit::Budgeted = memlimit::Budgeted;

fn main() {
    if std::env::var("SIMH_CHILD").is_ok() {
        runner::child_main();
    }
    let args: Vec<String> = std::env::args().collect();
    let cmd = args.get(1).map(|s| s.as_str()).unwrap_or("help");
    let code = match cmd {
        "check" => {
            let prop = args.get(2).cloned().unwrap_or_default();
            let tier = std::env::var("VERIF_TIER").ok().filter(|t| !t.is_empty()).or_else(|| args.get(3).cloned()).unwrap_or_else(|| "quick".into());
            let tier = args.get(3).cloned().unwrap_or(tier);
            parent::check(&prop, &tier)
        }
        "replay" => {
            let path = args.get(2).cloned().unwrap_or_default();
            parent::replay(&path, args.iter().any(|a| a == "--trace"))
        }
        "selftest" => {
            let n: u64 = args.get(2).and_then(|s| s.parse().ok()).unwrap_or(400);
            let w: usize = args.get(3).and_then(|s| s.parse().ok()).unwrap_or(16);
            parent::selftest(n, w)
        }
        "gen" => {
            let prop = args.get(2).cloned().unwrap_or_default();
            let tier = args.get(3).cloned().unwrap_or_else(|| "quick".into());
            let idx: u64 = args.get(4).and_then(|s| s.parse().ok()).unwrap_or(0);
            let seed: u64 = std::env::var("VERIF_SEED").ok().and_then(|s| s.parse().ok()).unwrap_or(parent::DEFAULT_SEED);
            let spec = gen::generate(&prop, &tier, seed, idx);
            println!("{}", serde_json::to_string_pretty(&spec).unwrap());
            0
        }
        _ => {
            eprintln!("usage: simharness check <Cxx> <quick|thorough> | replay <file> [--trace] | selftest [n] [workers] | gen <Cxx> <tier> <idx>");
            2
        }
    };
    std::process::exit(code);
}
