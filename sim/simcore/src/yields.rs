//! Named, guarded preemption points ("buggify"): a no-op unless the run enabled the site.

use crate::rng::Rng;
use once_cell::sync::Lazy;
use parking_lot::Mutex;
use std::collections::BTreeMap;

struct Sites {
    enabled: BTreeMap<String, u32>, // name -> max turns
    rng: Option<Rng>,
    hits: BTreeMap<String, u64>,
}

static SITES: Lazy<Mutex<Sites>> =
    Lazy::new(|| Mutex::new(Sites { enabled: BTreeMap::new(), rng: None, hits: BTreeMap::new() }));

pub fn enable(name: &str, max_turns: u32) {
    SITES.lock().enabled.insert(name.to_string(), max_turns);
}

pub fn hits() -> BTreeMap<String, u64> {
    SITES.lock().hits.clone()
}

pub async fn yield_point(name: &'static str) {
    let turns = {
        let mut s = SITES.lock();
        let max = match s.enabled.get(name) {
            Some(m) => *m,
            None => return,
        };
        if s.rng.is_none() {
            s.rng = Some(Rng::stream("yield"));
        }
        *s.hits.entry(name.to_string()).or_insert(0) += 1;
        s.rng.as_mut().unwrap().range(0, max as u64) as u32
    };
    if turns > 0 {
        crate::log::world(|| format!("yield {} {}", name, turns));
    }
    for _ in 0..turns {
        tokio::task::yield_now().await;
    }
}
