//! Virtual wall clock = fixed epoch + virtual time elapsed on the paused tokio clock.

use once_cell::sync::OnceCell;
use std::time::Duration;

/// 2026-01-01T00:00:00Z
pub const EPOCH_SECS: u64 = 1_767_225_600;

static START: OnceCell<tokio::time::Instant> = OnceCell::new();

/// Called once inside the simulated runtime before anything else runs.
pub fn stamp_epoch() {
    let _ = START.set(tokio::time::Instant::now());
}

/// Virtual time since the start of the run.
pub fn elapsed() -> Duration {
    match START.get() {
        Some(s) => tokio::time::Instant::now().saturating_duration_since(*s),
        None => Duration::ZERO,
    }
}

pub fn now_us() -> u64 {
    elapsed().as_micros() as u64
}

/// Drop-in for the uses PgCat makes of `std::time::SystemTime`.
#[derive(Clone, Copy, Debug, PartialEq, Eq, PartialOrd, Ord)]
pub struct SystemTime(Duration); // since UNIX_EPOCH

pub const UNIX_EPOCH: SystemTime = SystemTime(Duration::ZERO);

#[derive(Debug)]
pub struct SystemTimeError;

impl SystemTime {
    pub fn now() -> SystemTime {
        SystemTime(Duration::from_secs(EPOCH_SECS) + elapsed())
    }
    pub fn elapsed(&self) -> Result<Duration, SystemTimeError> {
        SystemTime::now().duration_since(*self)
    }
    pub fn duration_since(&self, earlier: SystemTime) -> Result<Duration, SystemTimeError> {
        self.0.checked_sub(earlier.0).ok_or(SystemTimeError)
    }
}

pub fn utc_now_naive() -> chrono::NaiveDateTime {
    let d = Duration::from_secs(EPOCH_SECS) + elapsed();
    chrono::NaiveDateTime::from_timestamp_opt(d.as_secs() as i64, d.subsec_nanos())
        .expect("valid timestamp")
}
