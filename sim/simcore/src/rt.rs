//! The simulated runtime: single-threaded tokio, paused (virtual) clock, no I/O driver, seeded
//! `select!` order. PgCat's `main` obtains it through the guarded hook
//! `let runtime = simcore::rt::handle();` and calls `block_on` on it exactly as it does on the
//! multi-thread runtime it ships with.

use once_cell::sync::{Lazy, OnceCell};
use parking_lot::Mutex;
use std::future::Future;

static RT: OnceCell<tokio::runtime::Runtime> = OnceCell::new();
type StartFn = Box<dyn FnOnce() + Send>;
static WORLD_START: Lazy<Mutex<Option<StartFn>>> = Lazy::new(|| Mutex::new(None));
static PGCAT_EXIT: Lazy<Mutex<Option<(u64, u64)>>> = Lazy::new(|| Mutex::new(None));
static BLOCK_ON_ENTERED: Lazy<Mutex<bool>> = Lazy::new(|| Mutex::new(false));
static MAIN_PANICKED: Lazy<Mutex<bool>> = Lazy::new(|| Mutex::new(false));

/// Build the runtime for this run. Must be called before PgCat's main.
pub fn init(seed: u64) {
    crate::rng::set_seed(seed);
    crate::rand_shim::reseed();
    let mut bytes = [0u8; 32];
    crate::rng::Rng::stream("tokio").fill(&mut bytes);
    let rt = tokio::runtime::Builder::new_current_thread()
        .enable_time()
        .start_paused(true)
        .rng_seed(tokio::runtime::RngSeed::from_bytes(&bytes))
        .build()
        .expect("sim runtime");
    if RT.set(rt).is_err() {
        panic!("simcore::rt::init called twice");
    }
}

/// Closure run inside the runtime right before PgCat's main future is first polled; it spawns
/// the world (mocks, clients, director).
pub fn set_world_start(f: StartFn) {
    *WORLD_START.lock() = Some(f);
}

pub struct SimRuntime;

pub fn handle() -> SimRuntime {
    SimRuntime
}

impl SimRuntime {
    pub fn block_on<F: Future>(&self, fut: F) -> F::Output {
        let rt = RT.get().expect("simcore::rt::init not called");
        *BLOCK_ON_ENTERED.lock() = true;
        rt.block_on(async move {
            crate::clock::stamp_epoch();
            if let Some(f) = WORLD_START.lock().take() {
                f();
            }
            let out = fut.await;
            let seq = crate::log::world(|| "pgcat.main_exit".to_string());
            *PGCAT_EXIT.lock() = Some((seq, crate::clock::now_us()));
            crate::net::freeze_pgcat();
            out
        })
    }
}

/// PgCat's main future unwound with a panic: for the world this is the end of the process.
pub fn main_panicked() {
    if PGCAT_EXIT.lock().is_none() {
        let seq = crate::log::world(|| "pgcat.main_panic".to_string());
        *PGCAT_EXIT.lock() = Some((seq, crate::clock::now_us()));
        *MAIN_PANICKED.lock() = true;
        crate::net::freeze_pgcat();
    }
}

pub fn main_panic() -> bool {
    *MAIN_PANICKED.lock()
}

/// (event seq, virtual microseconds) at which PgCat's main future returned, if it did.
pub fn pgcat_exit() -> Option<(u64, u64)> {
    *PGCAT_EXIT.lock()
}

pub fn entered() -> bool {
    *BLOCK_ON_ENTERED.lock()
}

/// Keep driving the runtime after PgCat's main returned (the world's director ends the process).
pub fn run_forever() -> ! {
    let rt = RT.get().expect("simcore::rt::init not called");
    rt.block_on(async {
        std::future::pending::<()>().await;
    });
    unreachable!()
}
