//! In-memory stand-in for `tokio::fs::File` as used by `config::parse`.

use once_cell::sync::Lazy;
use parking_lot::Mutex;
use std::collections::BTreeMap;
use std::io;
use std::pin::Pin;
use std::task::{Context, Poll};
use tokio::io::{AsyncRead, ReadBuf};

#[derive(Clone, Debug)]
pub enum Content {
    Data(Vec<u8>),
    /// open() fails with NotFound
    Missing,
    /// open() succeeds, read fails after `Vec` bytes with EIO
    ReadError(Vec<u8>),
}

static FILES: Lazy<Mutex<BTreeMap<String, Content>>> = Lazy::new(|| Mutex::new(BTreeMap::new()));
static OPENS: Lazy<Mutex<u64>> = Lazy::new(|| Mutex::new(0));

pub fn set(path: &str, c: Content) {
    FILES.lock().insert(path.to_string(), c);
}

pub fn opens() -> u64 {
    *OPENS.lock()
}

pub struct File {
    data: Vec<u8>,
    pos: usize,
    fail_at_end: bool,
}

impl File {
    pub async fn open(path: impl AsRef<std::path::Path>) -> io::Result<File> {
        let p = path.as_ref().to_string_lossy().to_string();
        *OPENS.lock() += 1;
        crate::log::world(|| format!("fs.open {}", p));
        match FILES.lock().get(&p) {
            Some(Content::Data(d)) => Ok(File { data: d.clone(), pos: 0, fail_at_end: false }),
            Some(Content::ReadError(d)) => Ok(File { data: d.clone(), pos: 0, fail_at_end: true }),
            Some(Content::Missing) | None => {
                Err(io::Error::new(io::ErrorKind::NotFound, "No such file or directory (sim)"))
            }
        }
    }
}

impl AsyncRead for File {
    fn poll_read(mut self: Pin<&mut Self>, _cx: &mut Context<'_>, buf: &mut ReadBuf<'_>) -> Poll<io::Result<()>> {
        let remaining = self.data.len() - self.pos;
        if remaining == 0 {
            if self.fail_at_end {
                return Poll::Ready(Err(io::Error::new(io::ErrorKind::Other, "Input/output error (sim)")));
            }
            return Poll::Ready(Ok(()));
        }
        let n = remaining.min(buf.remaining());
        let pos = self.pos;
        buf.put_slice(&self.data[pos..pos + n]);
        self.pos += n;
        Poll::Ready(Ok(()))
    }
}
