//! Observation hooks: PgCat (under `cfg(pgcat_verif)`) reports state changes that cannot be seen
//! on the wire or through its public API with exact ordering (ban-list changes). The harness
//! registers a sink; notes are stamped with the global event sequence number and virtual time.

use once_cell::sync::Lazy;
use parking_lot::Mutex;

#[derive(Clone, Debug)]
pub struct Note {
    pub seq: u64,
    pub us: u64,
    pub kind: &'static str,
    pub detail: String,
}

static NOTES: Lazy<Mutex<Vec<Note>>> = Lazy::new(|| Mutex::new(Vec::new()));

pub fn note(kind: &'static str, detail: String) {
    let seq = crate::log::world(|| format!("note {} {}", kind, detail));
    NOTES.lock().push(Note { seq, us: crate::clock::now_us(), kind, detail });
}

pub fn notes() -> Vec<Note> {
    NOTES.lock().clone()
}
