//! Stand-in for `tokio::signal::unix` and for `nix::sys::signal::kill(getpid(), SIGINT)`.

use once_cell::sync::Lazy;
use parking_lot::Mutex;
use tokio::sync::mpsc::{unbounded_channel, UnboundedReceiver, UnboundedSender};

#[derive(Clone, Copy, Debug, PartialEq, Eq)]
pub struct SignalKind(pub i32);

impl SignalKind {
    pub fn terminate() -> SignalKind { SignalKind(15) }
    pub fn interrupt() -> SignalKind { SignalKind(2) }
    pub fn hangup() -> SignalKind { SignalKind(1) }
}

static LISTENERS: Lazy<Mutex<Vec<(i32, UnboundedSender<()>)>>> = Lazy::new(|| Mutex::new(Vec::new()));
static RAISED: Lazy<Mutex<Vec<(u64, u64, i32)>>> = Lazy::new(|| Mutex::new(Vec::new()));

pub struct Signal {
    rx: UnboundedReceiver<()>,
}

impl Signal {
    pub async fn recv(&mut self) -> Option<()> {
        self.rx.recv().await
    }
}

pub fn signal(kind: SignalKind) -> std::io::Result<Signal> {
    let (tx, rx) = unbounded_channel();
    LISTENERS.lock().push((kind.0, tx));
    Ok(Signal { rx })
}

/// World side: deliver a signal to the simulated PgCat process.
pub fn raise(kind: SignalKind) {
    let seq = crate::log::world(|| format!("signal {}", kind.0));
    RAISED.lock().push((seq, crate::clock::now_us(), kind.0));
    for (k, tx) in LISTENERS.lock().iter() {
        if *k == kind.0 {
            let _ = tx.send(());
        }
    }
}

/// (event seq, virtual us, signal number) of every signal raised so far.
pub fn raised() -> Vec<(u64, u64, i32)> {
    RAISED.lock().clone()
}

/// `use simcore::signal::nixshim::{self as signal, Signal};` replaces nix in admin.rs.
pub mod nixshim {
    #[allow(clippy::upper_case_acronyms)]
    #[derive(Clone, Copy, Debug)]
    pub enum Signal {
        SIGINT,
        SIGTERM,
        SIGHUP,
    }

    pub fn kill<P>(_pid: P, sig: Signal) -> Result<(), ()> {
        let kind = match sig {
            Signal::SIGINT => super::SignalKind::interrupt(),
            Signal::SIGTERM => super::SignalKind::terminate(),
            Signal::SIGHUP => super::SignalKind::hangup(),
        };
        super::raise(kind);
        Ok(())
    }
}
