//! Seeded PRNG streams. `stream("purpose")` gives an independent generator whose sequence is a
//! function of (run seed, purpose) only, so adding an actor or a log line never shifts the
//! draws of another actor.

use std::sync::atomic::{AtomicU64, Ordering};

static SEED: AtomicU64 = AtomicU64::new(0x5EED_0000_0000_0001);

pub fn set_seed(seed: u64) {
    SEED.store(seed, Ordering::SeqCst);
}

pub fn seed() -> u64 {
    SEED.load(Ordering::SeqCst)
}

#[inline]
fn splitmix(state: &mut u64) -> u64 {
    *state = state.wrapping_add(0x9E37_79B9_7F4A_7C15);
    let mut z = *state;
    z = (z ^ (z >> 30)).wrapping_mul(0xBF58_476D_1CE4_E5B9);
    z = (z ^ (z >> 27)).wrapping_mul(0x94D0_49BB_1331_11EB);
    z ^ (z >> 31)
}

pub fn fnv(s: &[u8]) -> u64 {
    let mut h: u64 = 0xcbf2_9ce4_8422_2325;
    for b in s {
        h ^= *b as u64;
        h = h.wrapping_mul(0x0000_0100_0000_01B3);
    }
    h
}

/// xoshiro256** seeded through splitmix64.
#[derive(Clone, Debug)]
pub struct Rng {
    s: [u64; 4],
}

impl Rng {
    pub fn from_seed(seed: u64) -> Rng {
        let mut st = seed;
        let mut s = [0u64; 4];
        for x in s.iter_mut() {
            *x = splitmix(&mut st);
        }
        if s == [0, 0, 0, 0] {
            s[0] = 1;
        }
        Rng { s }
    }

    /// Independent stream for (global seed, purpose).
    pub fn stream(purpose: &str) -> Rng {
        Rng::from_seed(seed() ^ fnv(purpose.as_bytes()).rotate_left(17))
    }

    pub fn stream_of(seed: u64, purpose: &str) -> Rng {
        Rng::from_seed(seed ^ fnv(purpose.as_bytes()).rotate_left(17))
    }

    #[inline]
    pub fn next_u64(&mut self) -> u64 {
        let result = self.s[1].wrapping_mul(5).rotate_left(7).wrapping_mul(9);
        let t = self.s[1] << 17;
        self.s[2] ^= self.s[0];
        self.s[3] ^= self.s[1];
        self.s[1] ^= self.s[2];
        self.s[0] ^= self.s[3];
        self.s[2] ^= t;
        self.s[3] = self.s[3].rotate_left(45);
        result
    }

    /// Uniform in [0, n). n == 0 gives 0.
    pub fn below(&mut self, n: u64) -> u64 {
        if n == 0 {
            return 0;
        }
        // multiply-shift; bias is irrelevant here
        ((self.next_u64() as u128 * n as u128) >> 64) as u64
    }

    /// Uniform in [lo, hi] inclusive.
    pub fn range(&mut self, lo: u64, hi: u64) -> u64 {
        if hi <= lo {
            return lo;
        }
        lo + self.below(hi - lo + 1)
    }

    pub fn chance(&mut self, p: f64) -> bool {
        if p <= 0.0 {
            return false;
        }
        if p >= 1.0 {
            return true;
        }
        ((self.next_u64() >> 11) as f64) * (1.0 / ((1u64 << 53) as f64)) < p
    }

    pub fn pick<'a, T>(&mut self, xs: &'a [T]) -> &'a T {
        &xs[self.below(xs.len() as u64) as usize]
    }

    pub fn shuffle<T>(&mut self, xs: &mut [T]) {
        for i in (1..xs.len()).rev() {
            let j = self.below(i as u64 + 1) as usize;
            xs.swap(i, j);
        }
    }

    pub fn fill(&mut self, buf: &mut [u8]) {
        for chunk in buf.chunks_mut(8) {
            let v = self.next_u64().to_le_bytes();
            chunk.copy_from_slice(&v[..chunk.len()]);
        }
    }
}
