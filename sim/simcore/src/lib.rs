//! simcore: the seams of the deterministic simulator.
//!
//! Everything PgCat can observe that is not a pure function of its inputs goes through this
//! crate when PgCat is built with `--cfg pgcat_verif`: the network (`net`), wall clock
//! (`clock`), randomness (`rng`, `rand_shim`), the config file (`fs`), unix signals
//! (`signal`), the runtime (`rt`) and named preemption points (`yield_point`).
//!
//! One integer (the run seed) decides every choice made here. Nothing in this crate reads a
//! real clock, a real socket or OS entropy.

pub mod clock;
pub mod fs;
pub mod log;
pub mod net;
pub mod observe;
pub mod rand_shim;
pub mod rng;
pub mod rt;
pub mod signal;
pub mod yields;

pub use yields::yield_point;
