//! Simulated TCP. `TcpStream`/`TcpListener` carry the tokio names and are used *only* by the
//! guarded hooks inside PgCat, so every socket created through `TcpStream::connect`,
//! `TcpListener::bind/accept` belongs to the simulated PgCat process. The world (mock servers,
//! scripted clients) uses `net::world::*`.
//!
//! A connection is two unidirectional byte queues ("halves"). A write is cut into PRNG-sized
//! segments, accepted only up to the send-buffer size, and each segment becomes readable at
//! the peer after a per-connection latency, in order. Reads may be short. Every poll may
//! spuriously return Pending (chaos yield) to perturb task interleaving.

use crate::rng::Rng;
use once_cell::sync::Lazy;
use parking_lot::Mutex;
use std::collections::{BTreeMap, VecDeque};
use std::future::Future;
use std::io;
use std::net::SocketAddr;
use std::pin::Pin;
use std::task::{Context, Poll, Waker};
use std::time::Duration;
use tokio::io::{AsyncRead, AsyncWrite, ReadBuf};
use tokio::time::{Instant, Sleep};

/// `configure_socket` consults this to skip kernel socket options.
pub const SIMULATED: bool = true;

#[derive(Clone, Copy, Debug, PartialEq, Eq)]
pub enum Owner {
    Pgcat,
    World,
}

#[derive(Clone, Copy, Debug, PartialEq, Eq)]
pub enum SegLaw {
    Whole,
    Mixed,
    Dribble,
}

#[derive(Clone, Debug)]
pub struct NetCfg {
    pub latency_ms: (u64, u64),
    pub jitter_ms: u64,
    pub sndbuf: usize,
    pub seg: SegLaw,
    pub short_reads: bool,
    pub chaos: f64,
    /// Virtual milliseconds a connect to a black-holed host takes before ETIMEDOUT.
    pub connect_hang_ms: u64,
}

impl Default for NetCfg {
    fn default() -> Self {
        NetCfg { latency_ms: (0, 0), jitter_ms: 0, sndbuf: 256 * 1024, seg: SegLaw::Whole, short_reads: false, chaos: 0.0, connect_hang_ms: 127_000 }
    }
}

#[derive(Clone, Copy, Debug, PartialEq, Eq)]
pub enum HostMode {
    Up,
    /// connect() fails with ECONNREFUSED
    Refuse,
    /// connect() never completes until the kernel gives up (connect_hang_ms)
    Hang,
}

struct Seg {
    at: Instant,
    data: Vec<u8>,
    off: usize,
}

struct Half {
    segs: VecDeque<Seg>,
    buffered: usize,
    fin: bool,
    rst: bool,
    reader_gone: bool,
    grace: usize,
    rwaker: Option<Waker>,
    wwaker: Option<Waker>,
    written: u64,
    read: u64,
    last_at: Option<Instant>,
    stall_until: Option<Instant>,
}

impl Half {
    fn new() -> Half {
        Half { segs: VecDeque::new(), buffered: 0, fin: false, rst: false, reader_gone: false, grace: 0, rwaker: None, wwaker: None, written: 0, read: 0, last_at: None, stall_until: None }
    }
    fn wake_reader(&mut self) {
        if let Some(w) = self.rwaker.take() {
            defer_wake(w);
        }
    }
    fn wake_writer(&mut self) {
        if let Some(w) = self.wwaker.take() {
            defer_wake(w);
        }
    }
}

struct Conn {
    halves: [Half; 2],
    owner: [Owner; 2],
    open: [bool; 2],
    lat_ms: u64,
    rng: Rng,
    host: String,
}

struct Host {
    mode: HostMode,
    queue: VecDeque<TcpStream>,
    waker: Option<Waker>,
    listening: bool,
}

struct PgListener {
    queue: VecDeque<TcpStream>,
    waker: Option<Waker>,
    addr: String,
}

#[derive(Clone, Debug, Default)]
pub struct NetStats {
    pub conns_pgcat_out: u64,
    pub conns_pgcat_in: u64,
    pub bytes_written: u64,
    pub segments: u64,
    pub short_reads: u64,
    pub split_reads: u64,
    pub chaos_yields: u64,
    pub backpressure_blocks: u64,
    pub refused: u64,
    pub connect_hangs: u64,
    pub resets: u64,
    pub broken_pipe_writes: u64,
    pub stalls: u64,
}

struct NetState {
    /// conn id -> (event seq, virtual us) at which PgCat closed its end
    pgcat_closed: BTreeMap<u32, (u64, u64)>,
    cfg: NetCfg,
    conns: BTreeMap<u32, Conn>,
    next_id: u32,
    hosts: BTreeMap<String, Host>,
    pg_listener: Option<PgListener>,
    pg_listen_waiters: Vec<Waker>,
    frozen: bool,
    stats: NetStats,
    chaos_rng: Rng,
}

thread_local! {
    static WAKES: std::cell::RefCell<Vec<Waker>> = std::cell::RefCell::new(Vec::new());
    static DROPS: std::cell::RefCell<Vec<Waker>> = std::cell::RefCell::new(Vec::new());
}

/// Wakers are never invoked while the network lock is held: waking can drop the last reference
/// to a finished task, whose destructor closes sockets and needs the lock again.
fn defer_wake(w: Waker) {
    WAKES.with(|v| v.borrow_mut().push(w));
}

/// A waker that is being replaced must not be dropped under the lock either (same reason),
/// and must not be woken (it usually belongs to the very task that is registering the new one).
fn defer_drop(w: Waker) {
    DROPS.with(|v| v.borrow_mut().push(w));
}

fn flush_wakes() {
    loop {
        let batch: Vec<Waker> = WAKES.with(|v| std::mem::take(&mut *v.borrow_mut()));
        let drops: Vec<Waker> = DROPS.with(|v| std::mem::take(&mut *v.borrow_mut()));
        if batch.is_empty() && drops.is_empty() {
            break;
        }
        drop(drops);
        for w in batch {
            w.wake();
        }
    }
}

struct NetGuard {
    g: Option<parking_lot::MutexGuard<'static, NetState>>,
}

impl Drop for NetGuard {
    fn drop(&mut self) {
        self.g.take();
        flush_wakes();
    }
}

impl std::ops::Deref for NetGuard {
    type Target = NetState;
    fn deref(&self) -> &NetState {
        self.g.as_ref().unwrap()
    }
}

impl std::ops::DerefMut for NetGuard {
    fn deref_mut(&mut self) -> &mut NetState {
        self.g.as_mut().unwrap()
    }
}

fn lock_net() -> NetGuard {
    NetGuard { g: Some(NET.lock()) }
}

static NET: Lazy<Mutex<NetState>> = Lazy::new(|| {
    Mutex::new(NetState {
        pgcat_closed: BTreeMap::new(),
        cfg: NetCfg::default(),
        conns: BTreeMap::new(),
        next_id: 1,
        hosts: BTreeMap::new(),
        pg_listener: None,
        pg_listen_waiters: Vec::new(),
        frozen: false,
        stats: NetStats::default(),
        chaos_rng: Rng::from_seed(1),
    })
});

pub fn configure(cfg: NetCfg) {
    let mut n = lock_net();
    n.cfg = cfg;
    n.chaos_rng = Rng::stream("net/chaos");
}

pub fn stats() -> NetStats {
    lock_net().stats.clone()
}

pub fn is_frozen() -> bool {
    lock_net().frozen
}

/// Emulate process exit of PgCat: every socket it owns is closed towards its peer (bytes
/// already written are still delivered), and every later operation on them pends forever.
pub fn freeze_pgcat() {
    let mut n = lock_net();
    if n.frozen {
        return;
    }
    // connections still waiting in the accept queue are closed like every other PgCat socket,
    // but their destructors need the lock: drop them after it is released
    let pending_listener = n.pg_listener.take();
    n.frozen = true;
    let ids: Vec<u32> = n.conns.keys().cloned().collect();
    for id in ids {
        let c = n.conns.get_mut(&id).unwrap();
        for side in 0..2 {
            if c.owner[side] == Owner::Pgcat && c.open[side] {
                c.open[side] = false;
                c.halves[side].fin = true;
                c.halves[side].wake_reader();
                c.halves[1 - side].reader_gone = true;
                c.halves[1 - side].grace = 0;
                c.halves[1 - side].wake_writer();
            }
        }
    }
    drop(n);
    if let Some(l) = pending_listener {
        for mut s in l.queue.into_iter() {
            // PgCat never accepted it: the peer sees the connection closed
            s.owner = Owner::World; // so that Drop does not short-circuit on `frozen`
            drop(s);
        }
    }
}

fn new_conn(n: &mut NetState, host: &str, owner0: Owner, owner1: Owner) -> (TcpStream, TcpStream) {
    let id = n.next_id;
    n.next_id += 1;
    let mut rng = Rng::stream(&format!("net/{}", id));
    let (lo, hi) = n.cfg.latency_ms;
    let lat_ms = rng.range(lo, hi);
    n.conns.insert(id, Conn { halves: [Half::new(), Half::new()], owner: [owner0, owner1], open: [true, true], lat_ms, rng, host: host.to_string() });
    (
        TcpStream { id, side: 0, owner: owner0, timer: None, abort_on_drop: false, host: host.to_string() },
        TcpStream { id, side: 1, owner: owner1, timer: None, abort_on_drop: false, host: host.to_string() },
    )
}

pub struct TcpStream {
    id: u32,
    side: usize,
    owner: Owner,
    timer: Option<Pin<Box<Sleep>>>,
    abort_on_drop: bool,
    host: String,
}

impl std::fmt::Debug for TcpStream {
    fn fmt(&self, f: &mut std::fmt::Formatter<'_>) -> std::fmt::Result {
        write!(f, "SimTcpStream(conn={}, side={}, {:?})", self.id, self.side, self.owner)
    }
}

fn chaos(owner: Owner, cx: &mut Context<'_>) -> bool {
    let mut n = lock_net();
    let p = n.cfg.chaos;
    if p > 0.0 && n.chaos_rng.chance(p) {
        n.stats.chaos_yields += 1;
        drop(n);
        let _ = owner;
        cx.waker().wake_by_ref();
        return true;
    }
    false
}

impl TcpStream {
    /// PgCat-initiated connection to `host:port`.
    pub async fn connect(addr: impl AsRef<str>) -> io::Result<TcpStream> {
        let addr = addr.as_ref().to_string();
        let frozen = lock_net().frozen;
        if frozen {
            std::future::pending::<()>().await;
        }
        let lat = {
            let mut n = lock_net();
            let (lo, hi) = n.cfg.latency_ms;
            n.chaos_rng.range(lo, hi)
        };
        if lat > 0 {
            tokio::time::sleep(Duration::from_millis(lat)).await;
        } else {
            tokio::task::yield_now().await;
        }
        let mode = {
            let n = lock_net();
            match n.hosts.get(&addr) {
                Some(h) if h.listening => h.mode,
                _ => HostMode::Refuse,
            }
        };
        match mode {
            HostMode::Refuse => {
                lock_net().stats.refused += 1;
                crate::log::world(|| format!("net.connect {} refused", addr));
                Err(io::Error::new(io::ErrorKind::ConnectionRefused, "Connection refused (sim)"))
            }
            HostMode::Hang => {
                let ms = {
                    let mut n = lock_net();
                    n.stats.connect_hangs += 1;
                    n.cfg.connect_hang_ms
                };
                crate::log::world(|| format!("net.connect {} hang", addr));
                tokio::time::sleep(Duration::from_millis(ms)).await;
                Err(io::Error::new(io::ErrorKind::TimedOut, "Connection timed out (sim)"))
            }
            HostMode::Up => {
                let made = {
                    let mut n = lock_net();
                    if n.frozen {
                        None
                    } else {
                        let (mine, theirs) = new_conn(&mut n, &addr, Owner::Pgcat, Owner::World);
                        n.stats.conns_pgcat_out += 1;
                        let h = n.hosts.get_mut(&addr).unwrap();
                        h.queue.push_back(theirs);
                        if let Some(w) = h.waker.take() {
                            defer_wake(w);
                        }
                        Some(mine)
                    }
                };
                match made {
                    None => {
                        std::future::pending::<()>().await;
                        unreachable!()
                    }
                    Some(mine) => {
                        crate::log::net(mine.id * 2, b'c', 0, 0);
                        Ok(mine)
                    }
                }
            }
        }
    }

    pub fn conn_id(&self) -> u32 {
        self.id
    }

    pub fn host(&self) -> &str {
        &self.host
    }

    pub fn peer_addr(&self) -> io::Result<SocketAddr> {
        Ok(SocketAddr::from(([127, 0, 0, 1], 20000u16.wrapping_add((self.id % 40000) as u16))))
    }

    pub fn local_addr(&self) -> io::Result<SocketAddr> {
        Ok(SocketAddr::from(([127, 0, 0, 1], 6432)))
    }

    /// Close with RST instead of FIN when dropped.
    pub fn set_abort_on_drop(&mut self, on: bool) {
        self.abort_on_drop = on;
    }

    /// Fault: nothing this endpoint has written (and not yet delivered) or will write is
    /// delivered to the peer for `d` of virtual time.
    pub fn stall_outbound(&self, d: Duration) {
        let mut n = lock_net();
        n.stats.stalls += 1;
        if let Some(c) = n.conns.get_mut(&self.id) {
            c.halves[self.side].stall_until = Some(Instant::now() + d);
            c.halves[self.side].wake_reader();
        }
    }

    /// Bytes written by this endpoint so far / bytes read by this endpoint so far.
    pub fn counters(&self) -> (u64, u64) {
        let n = lock_net();
        match n.conns.get(&self.id) {
            Some(c) => (c.halves[self.side].written, c.halves[1 - self.side].read),
            None => (0, 0),
        }
    }

    /// Number of bytes the peer wrote that this endpoint has not read yet.
    pub fn unread(&self) -> usize {
        let n = lock_net();
        n.conns.get(&self.id).map(|c| c.halves[1 - self.side].buffered).unwrap_or(0)
    }

    pub fn peer_closed(&self) -> bool {
        let n = lock_net();
        n.conns.get(&self.id).map(|c| !c.open[1 - self.side]).unwrap_or(true)
    }

    fn write_inner(&self, n: &mut NetState, buf: &[u8], now: Instant) -> Result<usize, io::ErrorKind> {
        let cfg_sndbuf = n.cfg.sndbuf;
        let seg_law = n.cfg.seg;
        let jitter = n.cfg.jitter_ms;
        let c = match n.conns.get_mut(&self.id) {
            Some(c) => c,
            None => return Err(io::ErrorKind::BrokenPipe),
        };
        let lat = c.lat_ms;
        let h = &mut c.halves[self.side];
        if h.rst {
            n.stats.resets += 1;
            return Err(io::ErrorKind::ConnectionReset);
        }
        if h.fin {
            return Err(io::ErrorKind::BrokenPipe);
        }
        if buf.is_empty() {
            return Ok(0);
        }
        if h.reader_gone {
            if h.grace >= buf.len() {
                h.grace -= buf.len();
                h.written += buf.len() as u64;
                return Ok(buf.len());
            }
            h.grace = 0;
            n.stats.broken_pipe_writes += 1;
            return Err(io::ErrorKind::BrokenPipe);
        }
        let space = cfg_sndbuf.saturating_sub(h.buffered);
        if space == 0 {
            return Err(io::ErrorKind::WouldBlock);
        }
        let max = buf.len().min(space);
        let take = match seg_law {
            SegLaw::Whole => max,
            SegLaw::Mixed => {
                if c.rng.chance(0.5) {
                    max
                } else {
                    c.rng.range(1, max as u64) as usize
                }
            }
            SegLaw::Dribble => c.rng.range(1, 8.min(max as u64)) as usize,
        };
        let j = if jitter > 0 { c.rng.range(0, jitter) } else { 0 };
        let mut at = now + Duration::from_millis(lat + j);
        let h = &mut c.halves[self.side];
        if let Some(last) = h.last_at {
            if last > at {
                at = last;
            }
        }
        h.last_at = Some(at);
        h.segs.push_back(Seg { at, data: buf[..take].to_vec(), off: 0 });
        h.buffered += take;
        h.written += take as u64;
        h.wake_reader();
        n.stats.bytes_written += take as u64;
        n.stats.segments += 1;
        Ok(take)
    }

    /// Non-blocking write (tokio's `try_write`), used by `Server::drop` to send Terminate.
    pub fn try_write(&self, buf: &[u8]) -> io::Result<usize> {
        let mut n = lock_net();
        if n.frozen && self.owner == Owner::Pgcat {
            return Err(io::Error::new(io::ErrorKind::WouldBlock, "frozen"));
        }
        let now = Instant::now();
        match self.write_inner(&mut n, buf, now) {
            Ok(k) => {
                drop(n);
                if self.owner == Owner::Pgcat {
                    crate::log::net(self.id * 2 + self.side as u32, b'w', k as u64, 0);
                }
                Ok(k)
            }
            Err(kind) => Err(io::Error::new(kind, "sim try_write")),
        }
    }
}

impl AsyncRead for TcpStream {
    fn poll_read(mut self: Pin<&mut Self>, cx: &mut Context<'_>, buf: &mut ReadBuf<'_>) -> Poll<io::Result<()>> {
        let this = &mut *self;
        if this.owner == Owner::Pgcat && lock_net().frozen {
            return Poll::Pending;
        }
        if buf.remaining() == 0 {
            return Poll::Ready(Ok(()));
        }
        if chaos(this.owner, cx) {
            return Poll::Pending;
        }
        loop {
            let now = Instant::now();
            let mut n = lock_net();
            let short = n.cfg.short_reads;
            let c = match n.conns.get_mut(&this.id) {
                Some(c) => c,
                None => return Poll::Ready(Ok(())),
            };
            let rside = 1 - this.side;
            if c.halves[rside].rst {
                n.stats.resets += 1;
                return Poll::Ready(Err(io::Error::new(io::ErrorKind::ConnectionReset, "Connection reset by peer (sim)")));
            }
            // how much is deliverable now?
            let stalled_until = match c.halves[rside].stall_until {
                Some(t) if t > now => Some(t),
                _ => None,
            };
            let mut avail = 0usize;
            if stalled_until.is_none() {
                for s in c.halves[rside].segs.iter() {
                    if s.at <= now {
                        avail += s.data.len() - s.off;
                    } else {
                        break;
                    }
                }
            }
            if avail > 0 {
                let mut want = avail.min(buf.remaining());
                let mut was_short = false;
                if short && want > 1 {
                    let r = c.rng.below(4);
                    if r == 0 {
                        want = c.rng.range(1, want as u64) as usize;
                        was_short = true;
                    } else if r == 1 {
                        want = c.rng.range(1, 16.min(want as u64)) as usize;
                        was_short = true;
                    }
                }
                let h = &mut c.halves[rside];
                let mut left = want;
                while left > 0 {
                    let s = h.segs.front_mut().unwrap();
                    let k = (s.data.len() - s.off).min(left);
                    buf.put_slice(&s.data[s.off..s.off + k]);
                    s.off += k;
                    left -= k;
                    if s.off == s.data.len() {
                        h.segs.pop_front();
                    }
                }
                h.buffered -= want;
                h.read += want as u64;
                let total = h.read;
                h.wake_writer();
                if was_short {
                    n.stats.short_reads += 1;
                }
                if want < avail {
                    n.stats.split_reads += 1;
                }
                drop(n);
                this.timer = None;
                if this.owner == Owner::Pgcat {
                    crate::log::net(this.id * 2 + this.side as u32, b'r', want as u64, total);
                }
                return Poll::Ready(Ok(()));
            }
            let h = &mut c.halves[rside];
            if h.segs.is_empty() && h.fin && stalled_until.is_none() {
                drop(n);
                if this.owner == Owner::Pgcat {
                    crate::log::net(this.id * 2 + this.side as u32, b'e', 0, 0);
                }
                return Poll::Ready(Ok(()));
            }
            // nothing deliverable: wait for a writer event or for the head segment's time
            if let Some(old) = h.rwaker.replace(cx.waker().clone()) {
                defer_drop(old);
            }
            let wake_at = match (stalled_until, h.segs.front()) {
                (Some(t), _) => Some(t),
                (None, Some(s)) => Some(s.at),
                (None, None) => None,
            };
            drop(n);
            match wake_at {
                None => {
                    this.timer = None;
                    return Poll::Pending;
                }
                Some(t) => {
                    let mut sl = Box::pin(tokio::time::sleep_until(t));
                    match sl.as_mut().poll(cx) {
                        Poll::Ready(()) => {
                            this.timer = None;
                            continue;
                        }
                        Poll::Pending => {
                            this.timer = Some(sl);
                            return Poll::Pending;
                        }
                    }
                }
            }
        }
    }
}

impl AsyncWrite for TcpStream {
    fn poll_write(self: Pin<&mut Self>, cx: &mut Context<'_>, buf: &[u8]) -> Poll<io::Result<usize>> {
        if self.owner == Owner::Pgcat && lock_net().frozen {
            return Poll::Pending;
        }
        if chaos(self.owner, cx) {
            return Poll::Pending;
        }
        let now = Instant::now();
        let mut n = lock_net();
        match self.write_inner(&mut n, buf, now) {
            Ok(k) => {
                drop(n);
                if self.owner == Owner::Pgcat {
                    crate::log::net(self.id * 2 + self.side as u32, b'w', k as u64, 0);
                }
                Poll::Ready(Ok(k))
            }
            Err(io::ErrorKind::WouldBlock) => {
                n.stats.backpressure_blocks += 1;
                if let Some(c) = n.conns.get_mut(&self.id) {
                    if let Some(old) = c.halves[self.side].wwaker.replace(cx.waker().clone()) {
                        defer_drop(old);
                    }
                }
                Poll::Pending
            }
            Err(kind) => {
                drop(n);
                if self.owner == Owner::Pgcat {
                    crate::log::net(self.id * 2 + self.side as u32, b'x', 0, 0);
                }
                Poll::Ready(Err(io::Error::new(kind, "sim write error")))
            }
        }
    }

    fn poll_flush(self: Pin<&mut Self>, cx: &mut Context<'_>) -> Poll<io::Result<()>> {
        if self.owner == Owner::Pgcat && lock_net().frozen {
            return Poll::Pending;
        }
        if chaos(self.owner, cx) {
            return Poll::Pending;
        }
        Poll::Ready(Ok(()))
    }

    fn poll_shutdown(self: Pin<&mut Self>, _cx: &mut Context<'_>) -> Poll<io::Result<()>> {
        let mut n = lock_net();
        if self.owner == Owner::Pgcat && n.frozen {
            return Poll::Pending;
        }
        if let Some(c) = n.conns.get_mut(&self.id) {
            c.halves[self.side].fin = true;
            c.halves[self.side].wake_reader();
        }
        Poll::Ready(Ok(()))
    }
}

impl Drop for TcpStream {
    fn drop(&mut self) {
        let mut n = lock_net();
        if n.frozen && self.owner == Owner::Pgcat {
            return; // already closed by freeze
        }
        let mut remove = false;
        if let Some(c) = n.conns.get_mut(&self.id) {
            if !c.open[self.side] {
                return;
            }
            c.open[self.side] = false;
            let unread = c.halves[1 - self.side].buffered;
            // Closing with unread inbound data, or an explicit abort, sends RST: the peer's next
            // read fails and whatever we wrote that it has not read yet is lost.
            let rst = self.abort_on_drop || (unread > 0 && c.rng.chance(0.5));
            let grace = if c.rng.chance(0.5) { 0 } else { c.rng.range(1, 16384) as usize };
            {
                let w = &mut c.halves[self.side];
                if rst {
                    w.rst = true;
                    w.buffered = 0;
                    w.segs.clear();
                } else {
                    w.fin = true;
                }
                w.wake_reader();
            }
            {
                let r = &mut c.halves[1 - self.side];
                r.reader_gone = true;
                r.grace = if rst { 0 } else { grace };
                r.buffered = 0;
                r.segs.clear();
                r.wake_writer();
            }
            if !c.open[0] && !c.open[1] {
                remove = true;
            }
        }
        if remove {
            // (wakers are neither invoked nor dropped while the lock is held)
            if let Some(mut c) = n.conns.remove(&self.id) {
                for h in c.halves.iter_mut() {
                    h.wake_reader();
                    h.wake_writer();
                }
            }
        }
        drop(n);
        if self.owner == Owner::Pgcat {
            let seq = crate::log::net(self.id * 2 + self.side as u32, b'd', 0, 0);
            lock_net().pgcat_closed.insert(self.id, (seq, crate::clock::now_us()));
        }
    }
}

#[cfg(unix)]
impl std::os::unix::io::AsRawFd for TcpStream {
    fn as_raw_fd(&self) -> std::os::unix::io::RawFd {
        -1
    }
}

/// PgCat's listening socket.
pub struct TcpListener {
    _addr: String,
}

impl TcpListener {
    pub async fn bind(addr: impl AsRef<str>) -> io::Result<TcpListener> {
        let addr = addr.as_ref().to_string();
        let mut n = lock_net();
        n.pg_listener = Some(PgListener { queue: VecDeque::new(), waker: None, addr: addr.clone() });
        for w in n.pg_listen_waiters.drain(..) {
            defer_wake(w);
        }
        drop(n);
        crate::log::world(|| format!("net.bind {}", addr));
        Ok(TcpListener { _addr: addr })
    }

    pub async fn accept(&self) -> io::Result<(TcpStream, SocketAddr)> {
        std::future::poll_fn(|cx| {
            let mut n = lock_net();
            if n.frozen {
                return Poll::Pending;
            }
            match n.pg_listener.as_mut() {
                None => Poll::Pending,
                Some(l) => match l.queue.pop_front() {
                    Some(s) => {
                        n.stats.conns_pgcat_in += 1;
                        let addr = s.peer_addr().unwrap();
                        let id = s.id;
                        drop(n);
                        crate::log::net(id * 2 + 1, b'a', 0, 0);
                        Poll::Ready(Ok((s, addr)))
                    }
                    None => {
                        if let Some(old) = l.waker.replace(cx.waker().clone()) {
                            defer_drop(old);
                        }
                        Poll::Pending
                    }
                },
            }
        })
        .await
    }
}

/// The world's side of the network.
pub mod world {
    use super::*;

    /// Register `host` ("name:port") as a listening server owned by the world.
    pub fn listen(host: &str) -> WorldListener {
        let mut n = lock_net();
        n.hosts.insert(host.to_string(), Host { mode: HostMode::Up, queue: VecDeque::new(), waker: None, listening: true });
        WorldListener { host: host.to_string() }
    }

    pub fn set_host_mode(host: &str, mode: HostMode) {
        let mut n = lock_net();
        if let Some(h) = n.hosts.get_mut(host) {
            h.mode = mode;
        }
        drop(n);
        crate::log::world(|| format!("net.host_mode {} {:?}", host, mode));
    }

    pub fn host_mode(host: &str) -> Option<HostMode> {
        lock_net().hosts.get(host).map(|h| h.mode)
    }

    pub struct WorldListener {
        host: String,
    }

    impl WorldListener {
        pub async fn accept(&self) -> TcpStream {
            std::future::poll_fn(|cx| {
                let mut n = lock_net();
                let h = n.hosts.get_mut(&self.host).unwrap();
                match h.queue.pop_front() {
                    Some(s) => Poll::Ready(s),
                    None => {
                        if let Some(old) = h.waker.replace(cx.waker().clone()) {
                            defer_drop(old);
                        }
                        Poll::Pending
                    }
                }
            })
            .await
        }
    }

    /// Resolves once PgCat has bound its listener.
    pub async fn wait_pgcat_listening() {
        std::future::poll_fn(|cx| {
            let mut n = lock_net();
            if n.pg_listener.is_some() || n.frozen {
                Poll::Ready(())
            } else {
                n.pg_listen_waiters.push(cx.waker().clone());
                Poll::Pending
            }
        })
        .await
    }

    /// A scripted client connects to PgCat.
    pub async fn connect_pgcat() -> io::Result<TcpStream> {
        let lat = {
            let mut n = lock_net();
            let (lo, hi) = n.cfg.latency_ms;
            n.chaos_rng.range(lo, hi)
        };
        if lat > 0 {
            tokio::time::sleep(Duration::from_millis(lat)).await;
        }
        let mut n = lock_net();
        if n.frozen || n.pg_listener.is_none() {
            return Err(io::Error::new(io::ErrorKind::ConnectionRefused, "Connection refused (sim, pgcat not listening)"));
        }
        let addr = n.pg_listener.as_ref().unwrap().addr.clone();
        let (mine, theirs) = new_conn(&mut n, &addr, Owner::World, Owner::Pgcat);
        let l = n.pg_listener.as_mut().unwrap();
        l.queue.push_back(theirs);
        if let Some(w) = l.waker.take() {
            defer_wake(w);
        }
        Ok(mine)
    }

    /// (event seq, virtual us) at which PgCat closed its end of connection `id`, if it did.
    pub fn pgcat_closed_at(id: u32) -> Option<(u64, u64)> {
        lock_net().pgcat_closed.get(&id).cloned()
    }

    /// Is PgCat's endpoint of connection `id` still open (counted at PgCat's end of the wire)?
    pub fn pgcat_side_open(id: u32) -> bool {
        let n = lock_net();
        match n.conns.get(&id) {
            Some(c) => (0..2).any(|s| c.owner[s] == Owner::Pgcat && c.open[s]),
            None => false,
        }
    }

    /// Number of currently open connections that PgCat initiated to `host`, counted at
    /// PgCat's end of the wire.
    pub fn pgcat_open_conns_to(host: &str) -> usize {
        let n = lock_net();
        n.conns.values().filter(|c| c.host == host && c.owner[0] == Owner::Pgcat && c.open[0]).count()
    }
}
