//! Global event sequence numbers, the running digest of the full event log (determinism
//! self-test), and the interleaving signature. Logging never draws from a PRNG and never reads
//! a real clock.

use once_cell::sync::Lazy;
use parking_lot::Mutex;

pub struct LogState {
    pub seq: u64,
    pub digest: u64,
    pub signature: u64,
    pub events: u64,
    pub keep: bool,
    pub echo: bool,
    pub lines: Vec<String>,
}

static LOG: Lazy<Mutex<LogState>> = Lazy::new(|| {
    Mutex::new(LogState { seq: 0, digest: 0xcbf2_9ce4_8422_2325, signature: 0xcbf2_9ce4_8422_2325, events: 0, keep: false, echo: false, lines: Vec::new() })
});

#[inline]
fn mix(h: &mut u64, bytes: &[u8]) {
    for b in bytes {
        *h ^= *b as u64;
        *h = h.wrapping_mul(0x0000_0100_0000_01B3);
    }
}

/// Keep the text of every event (for `--trace` / replay files); otherwise only hashes are kept.
pub fn keep_lines(on: bool) {
    LOG.lock().keep = on;
}

/// Echo every world-level event to stderr as it happens (debugging a run that never ends).
pub fn echo(on: bool) {
    LOG.lock().echo = on;
}

/// Allocate the next global sequence number without logging anything else.
pub fn next_seq() -> u64 {
    let mut l = LOG.lock();
    l.seq += 1;
    l.seq
}

pub fn current_seq() -> u64 {
    LOG.lock().seq
}

/// A world- or seam-level event. Returns its sequence number.
pub fn world<F: FnOnce() -> String>(f: F) -> u64 {
    let t = crate::clock::now_us();
    let s = f();
    let mut l = LOG.lock();
    l.seq += 1;
    l.events += 1;
    let seq = l.seq;
    let mut d = l.digest;
    mix(&mut d, &seq.to_le_bytes());
    mix(&mut d, &t.to_le_bytes());
    mix(&mut d, s.as_bytes());
    l.digest = d;
    if l.echo {
        eprintln!("{} {} {}", seq, t, s);
    }
    if l.keep {
        l.lines.push(format!("{} {} {}", seq, t, s));
    }
    seq
}

/// A socket-level event at one of PgCat's sockets: contributes to the digest and to the
/// interleaving signature (sequence of (actor, kind) pairs, no sizes, no times).
pub fn net(actor: u32, kind: u8, a: u64, b: u64) -> u64 {
    let t = crate::clock::now_us();
    let mut l = LOG.lock();
    l.seq += 1;
    l.events += 1;
    let seq = l.seq;
    let mut d = l.digest;
    mix(&mut d, &seq.to_le_bytes());
    mix(&mut d, &t.to_le_bytes());
    mix(&mut d, &actor.to_le_bytes());
    mix(&mut d, &[kind]);
    mix(&mut d, &a.to_le_bytes());
    mix(&mut d, &b.to_le_bytes());
    l.digest = d;
    let mut s = l.signature;
    mix(&mut s, &actor.to_le_bytes());
    mix(&mut s, &[kind]);
    l.signature = s;
    if l.keep {
        l.lines.push(format!("{} {} net actor={} kind={} a={} b={}", seq, t, actor, kind as char, a, b));
    }
    seq
}

pub fn digest() -> u64 {
    LOG.lock().digest
}
pub fn signature() -> u64 {
    LOG.lock().signature
}
pub fn events() -> u64 {
    LOG.lock().events
}
pub fn take_lines() -> Vec<String> {
    std::mem::take(&mut LOG.lock().lines)
}
