//! Stand-in for the parts of the `rand` crate PgCat calls (`rand::random()`,
//! `rand::thread_rng()`), drawing from the seeded `pgcat` stream instead of OS entropy.

use crate::rng::Rng as SimRng;
use once_cell::sync::Lazy;
use parking_lot::Mutex;
use rand::distributions::{Distribution, Standard};
use rand::RngCore;

static PGCAT_RNG: Lazy<Mutex<SimRng>> = Lazy::new(|| Mutex::new(SimRng::stream("pgcat")));

/// Re-seed after the run seed is known (called by `rt::init`).
pub fn reseed() {
    *PGCAT_RNG.lock() = SimRng::stream("pgcat");
}

pub struct SimThreadRng;

impl RngCore for SimThreadRng {
    fn next_u32(&mut self) -> u32 {
        (PGCAT_RNG.lock().next_u64() >> 32) as u32
    }
    fn next_u64(&mut self) -> u64 {
        PGCAT_RNG.lock().next_u64()
    }
    fn fill_bytes(&mut self, dest: &mut [u8]) {
        PGCAT_RNG.lock().fill(dest)
    }
    fn try_fill_bytes(&mut self, dest: &mut [u8]) -> Result<(), rand::Error> {
        self.fill_bytes(dest);
        Ok(())
    }
}

pub fn thread_rng() -> SimThreadRng {
    SimThreadRng
}

pub fn random<T>() -> T
where
    Standard: Distribution<T>,
{
    Standard.sample(&mut SimThreadRng)
}

// So that `use simcore::rand_shim as rand;` keeps `rand::seq::...`, `rand::Rng` paths working.
pub use rand::seq;
pub use rand::Rng;
