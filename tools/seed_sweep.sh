#!/usr/bin/env bash
# usage: seed_sweep.sh "<seeds>" ["<properties>"]  — quick tier under several VERIF_SEED values; prints only what is not clean
seeds="${1:-1 2 3 4 5 6 7 8}"
props="${2:-C01 C02 C03 C04 C05 C06 C07 C08 C09 C10 C11 C12 C13 C14 C15 C16 C17 C18 C19 C20}"
cd /verif
mkdir -p /tmp/sweep
for sd in $seeds; do
  for p in $props; do
    out=$(VERIF_SEED=$sd ./check $p quick 2>&1)
    rc=$?
    if [ $rc -ne 0 ]; then
      echo "== seed=$sd $p exit=$rc"
      echo "$out" | grep -E "violation candidate|HARNESS|^done" | cut -c1-300 | head -8
      mkdir -p /tmp/sweep/$sd; cp /verif/replays/$p-*.json /tmp/sweep/$sd/ 2>/dev/null
    fi
  done
done
echo "sweep finished: seeds=[$seeds]"
