#!/usr/bin/env python3
"""Render /verif/seeded/*/meta.json as the markdown table of DESIGN.md §12."""
import json, glob, os, re
rows = []
for f in sorted(glob.glob('/verif/seeded/*/meta.json')):
    m = json.load(open(f))
    fv = m['checked_against'].get('first_violation') or ''
    cls = ''
    mm = re.search(r'replay=\S*?/C\d\d-\d+-(C\d\d_[A-Za-z0-9_]*)', fv)
    if mm:
        cls = mm.group(1).rstrip('_')
    title = re.sub(r'^C\d\d\s*[/,]?\s*(candidate\s+)?[a-d]?\s*[—:-]*\s*', '', m['title'], flags=re.I).strip()
    title = title.replace('|', '\\|')
    caught = m['checked_against'].get('caught')
    rows.append((m['id'], title[:110], 'yes' if caught else ('NO' if caught is False else '?'), cls[:60], 're-based' if m.get('patch_rebased_onto_repaired_tree') else ''))
print("| change | what it does | caught by its property's quick check | first violation class | note |")
print("|--------|--------------|--------------------------------------|------------------------|------|")
for r in rows:
    print("| " + " | ".join(r) + " |")
print()
print(f"{len(rows)} changes; {sum(1 for r in rows if r[2] == 'yes')} caught.")
