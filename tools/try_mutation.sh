#!/usr/bin/env bash
# usage: try_mutation.sh <patch.diff> <Cxx> [tier]   -- apply a seeded change to /repo, run the check, undo.
set -u
patch=$(realpath "$1"); prop="$2"; tier="${3:-quick}"
if ! git -C /repo diff --quiet; then echo "repo dirty, refusing"; exit 3; fi
git -C /repo apply "$patch" || { echo "patch does not apply"; exit 3; }
out=$(/verif/check "$prop" "$tier" 2>&1); code=$?
git -C /repo checkout -- .
echo "$out" | grep -E "^VIOLATION|^done|HARNESS-ERROR|KNOWN" | head -8
echo "exit=$code"
# replays written against a mutated tree are not findings of the real tree
rm -f /verif/replays/*.json
exit $code
