#!/usr/bin/env bash
# usage: mutation_battery.sh <logfile> [dirs...]   — applies each kept seeded change to /repo, runs the quick
# check of its property (directory name .../Cxx/<m>), restores the tree, and logs "BATTERY <dir> <Cxx> exit=<rc> <first violation>"
log="$1"; shift
dirs="$@"
[ -z "$dirs" ] && dirs=$(ls -d /tmp/mut/keep/C*/[ab] /tmp/mut/keep2/C*/[cd] 2>/dev/null)
: > "$log"
for d in $dirs; do
  prop=$(basename $(dirname $d))
  patch="$d/patch.diff"; [ -f "$d/patch_adapted.diff" ] && patch="$d/patch_adapted.diff"
  out=$(/verif/tools/try_mutation.sh "$patch" "$prop" quick 2>&1)
  rc=$(echo "$out" | grep -o "^exit=[0-9]*" | tail -1)
  first=$(echo "$out" | grep -E "^VIOLATION|does not apply|dirty" | head -1 | cut -c1-160)
  echo "BATTERY $d $prop $rc $first" >> "$log"
done
echo finished >> "$log"
