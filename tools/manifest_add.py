#!/usr/bin/env python3
"""manifest_add.py <Cxx> <category> <design_ref> <level text>  — claim a property in MANIFEST.json"""
import json, sys
pid, cat, ref, text = sys.argv[1:5]
p = '/verif/MANIFEST.json'
m = json.load(open(p))
m['checks'] = [c for c in m['checks'] if c['property_id'] != pid]
m['checks'].append({
    "property_id": pid,
    "quick_cmd": f"./check {pid} quick",
    "thorough_cmd": f"./check {pid} thorough",
    "evidence_file": f"evidence/{pid}.json",
    "replay_cmd_template": "./check replay {path}",
    "engine": "simharness",
    "level_claimed": {"category": cat, "text": text, "design_ref": ref},
    "level_note": "Trusted base: the simulator seams (sim/simcore), the mock PostgreSQL (only protocol facts PgCat branches on), the oracles. Single-threaded runtime: interleavings at await points and guarded yield points only. Sampling, not enumeration.",
    "technique": "deterministic simulation with fault injection (seeded schedule/fault search, history oracles, minimised replay)",
})
m['checks'].sort(key=lambda c: c['property_id'])
m['not_applicable'] = [n for n in m['not_applicable'] if n['property_id'] != pid]
for e in m['engines']:
    if e['name'] == 'simharness':
        e['serves_properties'] = sorted(set(e['serves_properties']) | {pid})
json.dump(m, open(p, 'w'), indent=2)
print("claimed", pid)
