#!/usr/bin/env python3
"""make_seeded.py <confirm logs...> -- builds /verif/seeded/<id>/ from the kept seeded changes under
/tmp/mut/keep (round 1: a, b) and /tmp/mut/keep2 (round 2: c, d), the confirmation log lines
(tools/confirm_mutation.sh) and the battery log (tools/mutation_battery.sh) given on the command line."""
import json, os, re, shutil, sys, glob, subprocess

logs = sys.argv[1:]
confirm, battery = {}, {}
for f in logs:
    for l in open(f):
        m = re.match(r'RESULT (\S+) head=(\S+) (.*)', l)
        if m:
            d, head, rest = m.groups()
            confirm[d] = (head, rest.strip())
        m = re.match(r'BATTERY (\S+) (\S+) exit=(\d+) ?(.*)', l)
        if m:
            d, prop, rc, first = m.groups()
            battery[d] = (prop, int(rc), first.strip())

def summ(x):
    r = re.findall(r'test result: (\w+)\. (\d+) passed; (\d+) failed', x)
    return ', '.join(f"{p} passed / {q} failed" for a, p, q in r) or x.strip()[:60]

out_root = '/verif/seeded'
os.makedirs(out_root, exist_ok=True)
index = []
for d in sorted(glob.glob('/tmp/mut/keep/C*/[ab]') + glob.glob('/tmp/mut/keep2/C*/[cd]')):
    prop = os.path.basename(os.path.dirname(d)); m = os.path.basename(d)
    sid = f"{prop}-{m}"
    c = confirm.get(d)
    if not c or 'does-not-apply' in c[1]:
        print("skip (not confirmed):", sid); continue
    head, rest = c
    lib = re.search(r'lib\(with\): (.*?) \| demo\(with\)', rest)
    w = re.search(r'demo\(with\): (.*?) \| demo\(without\)', rest)
    wo = rest.split('demo(without):')[1] if 'demo(without):' in rest else ''
    demo_fails_with = bool(w) and ('FAILED' in w.group(1) or 'no result' in w.group(1))
    demo_passes_without = 'ok.' in wo and 'FAILED' not in wo
    lib_ok = bool(lib) and '35 passed; 3 failed' in lib.group(1)
    if not (demo_fails_with and demo_passes_without and lib_ok):
        print("skip (confirmation failed):", sid, summ(w.group(1)) if w else None, '|', summ(wo)); continue
    dst = os.path.join(out_root, sid)
    if os.path.isdir(dst): shutil.rmtree(dst)
    os.makedirs(dst)
    adapted = os.path.exists(os.path.join(d, 'patch_adapted.diff'))
    shutil.copy(os.path.join(d, 'patch_adapted.diff' if adapted else 'patch.diff'), os.path.join(dst, 'patch.diff'))
    if adapted:
        shutil.copy(os.path.join(d, 'patch.diff'), os.path.join(dst, 'patch_as_written.diff'))
    for f in os.listdir(d):
        if f.endswith('.rs') or f in ('demo.diff', 'README.md'):
            shutil.copy(os.path.join(d, f), os.path.join(dst, f))
    readme = open(os.path.join(d, 'README.md')).read() if os.path.exists(os.path.join(d, 'README.md')) else ''
    title = readme.splitlines()[0].lstrip('# ').strip() if readme else sid
    needs = ''
    mm = re.search(r'##[^\n]*(needed|manifest)[^\n]*\n(.*?)(\n## |\Z)', readme, re.S | re.I)
    if mm: needs = re.sub(r'\s+', ' ', mm.group(2)).strip()[:1200]
    b = battery.get(d)
    meta = {
        "id": sid,
        "property": prop,
        "title": title,
        "origin": ("fresh sub-agent, round 1" if m in 'ab' else "fresh sub-agent, round 2 (asked for less obvious mechanisms)") + "; given only the property text and a scratch worktree of /repo",
        "needs_to_manifest": needs,
        "patch_rebased_onto_repaired_tree": adapted,
        "confirmed_in_scratch_worktree": {
            "repo_head": head,
            "command": "tools/confirm_mutation.sh (git apply patch + demo; cargo test --lib; cargo test --test '*' with and without the change)",
            "existing_suite_with_change": summ(lib.group(1)),
            "demonstration_with_change": summ(w.group(1)),
            "demonstration_without_change": summ(wo),
        },
        "checked_against": {
            "command": f"tools/try_mutation.sh seeded/{sid}/patch.diff {b[0] if b else prop} quick",
            "caught": (b[1] == 1) if b else None,
            "first_violation": b[2] if b else None,
        },
    }
    json.dump(meta, open(os.path.join(dst, 'meta.json'), 'w'), indent=2)
    index.append((sid, meta["checked_against"]["caught"], title))
for sid, caught, title in index:
    print(f"{sid:8} caught={caught} {title[:90]}")
print(len(index), "seeded changes written")
