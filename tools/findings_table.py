#!/usr/bin/env python3
"""Render known_findings.json as the two markdown tables of DESIGN.md §10 (repaired / open)."""
import json, collections
k = json.load(open('/verif/known_findings.json'))
fixed = collections.OrderedDict()
opened = []
for e in k:
    if e['status'] == 'fixed':
        key = e.get('commit')
        fixed.setdefault(key, {'props': [], 'what': e['what']})
        if e['property'] not in fixed[key]['props']:
            fixed[key]['props'].append(e['property'])
    else:
        opened.append(e)
print("| property | commit | what failed (input / history) |")
print("|----------|--------|-------------------------------|")
for c, r in fixed.items():
    what = r['what'].replace('|', '\\|')
    print(f"| {', '.join(r['props'])} | {c} | {what} |")
print()
print(f"{len(fixed)} repairs, {sum(1 for e in k if e['status'] == 'fixed')} recorded fingerprints.")
print()
print("Open findings (reported as `KNOWN-FINDING`, exit 0; anything else of the same property is still a violation):")
print()
print("| property | fingerprint | what fails | why it is recorded and not repaired |")
print("|----------|-------------|------------|--------------------------------------|")
for e in opened:
    what = e['what'].replace('|', '\\|')
    why = e['record'].split('not repaired:')[-1].strip().replace('|', '\\|') if 'not repaired:' in e['record'] else ''
    print(f"| {e['property']} | `{e['fingerprint']}` | {what} | {why} |")
