#!/usr/bin/env python3
"""Render known_findings.json as the markdown table of DESIGN.md §10."""
import json, collections
k = json.load(open('/verif/known_findings.json'))
rows = collections.OrderedDict()
for e in k:
    key = e.get('commit')
    rows.setdefault(key, {'props': [], 'what': e['what'], 'status': e['status']})
    if e['property'] not in rows[key]['props']:
        rows[key]['props'].append(e['property'])
print("| property | commit | what failed (input / history) |")
print("|----------|--------|-------------------------------|")
for c, r in rows.items():
    what = r['what'].replace('|', '\\|')
    print(f"| {', '.join(r['props'])} | {c} | {what} |")
print()
print(f"{len(rows)} repairs, {len(k)} recorded fingerprints.")
