#!/usr/bin/env bash
# usage: confirm_mutation.sh <dir with patch.diff + demo.diff> [worktree]
# Confirms in a scratch worktree of /repo HEAD: (1) lib tests with the change: 35 pass / 3 dns fail,
# (2) demonstration fails with the change, (3) passes without it. Prints one summary line.
set -u
d="$1"; wt="${2:-/tmp/mut/confirm_wt}"
if [ ! -d "$wt" ]; then
  git -C /repo worktree add -q --detach "$wt" HEAD || exit 3
  cp -r /repo/target "$wt/target"
fi
cd "$wt" || exit 3
git checkout -q --detach $(git -C /repo rev-parse HEAD) 2>/dev/null
git checkout -q -- . ; git clean -fdq -e target
export CARGO_NET_OFFLINE=true
git apply "$d/patch.diff" || { echo "RESULT $d patch-does-not-apply"; exit 1; }
git apply "$d/demo.diff" || { echo "RESULT $d demo-does-not-apply"; exit 1; }
lib=$(timeout 900 cargo test --offline --lib -j 8 2>&1 | grep -E "^test result" | head -1)
demo_with=$(timeout 600 cargo test --offline --test '*' -j 8 2>&1 | grep -E "^test result" | tr '\n' ' ')
git apply -R "$d/patch.diff"
demo_without=$(timeout 600 cargo test --offline --test '*' -j 8 2>&1 | grep -E "^test result" | tr '\n' ' ')
git checkout -q -- . ; git clean -fdq -e target
[ -z "$demo_with" ] && demo_with="(no result: hung or failed to build; killed by timeout)"
echo "RESULT $d | lib(with): $lib | demo(with): $demo_with | demo(without): $demo_without"
