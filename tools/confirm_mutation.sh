#!/usr/bin/env bash
# usage: confirm_mutation.sh <dir with patch.diff (or patch_adapted.diff) + demo.diff> [worktree]
# Confirms in a scratch worktree of /repo HEAD: (1) lib tests with the change: 35 pass / 3 dns fail,
# (2) demonstration fails with the change, (3) passes without it. Prints one summary line.
set -u
d="$1"; wt="${2:-/tmp/mut/confirm_wt}"
patch="$d/patch.diff"; [ -f "$d/patch_adapted.diff" ] && patch="$d/patch_adapted.diff"
if [ ! -d "$wt" ]; then
  git -C /repo worktree add -q --detach "$wt" HEAD || exit 3
  cp -r /repo/target "$wt/target" 2>/dev/null
fi
cd "$wt" || exit 3
git checkout -q --detach $(git -C /repo rev-parse HEAD) 2>/dev/null
git checkout -q -- . ; git clean -fdq -e target
export CARGO_NET_OFFLINE=true
head=$(git rev-parse --short HEAD)
git apply "$patch" || { echo "RESULT $d head=$head patch-does-not-apply"; exit 1; }
git apply "$d/demo.diff" || { echo "RESULT $d head=$head demo-does-not-apply"; git checkout -q -- . ; git clean -fdq -e target; exit 1; }
lib=$(timeout 900 cargo test --offline --lib -j 6 2>&1 | grep -E "^test result" | head -1)
demo_with=$(timeout 600 cargo test --offline --test '*' -j 6 2>&1 | grep -E "^test result" | tr '\n' ' ')
git apply -R "$patch"
demo_without=$(timeout 600 cargo test --offline --test '*' -j 6 2>&1 | grep -E "^test result" | tr '\n' ' ')
git checkout -q -- . ; git clean -fdq -e target
[ -z "$demo_with" ] && demo_with="(no result: hung or failed to build; killed by timeout)"
echo "RESULT $d head=$head patch=$(basename $patch) | lib(with): $lib | demo(with): $demo_with | demo(without): $demo_without"
